package main

import (
	"bufio"
	"fmt"
	"io"
	"strconv"
	"strings"
	"sync"
	"time"

	"github.com/frankkopp/FrankyGo/internal/position"
	"github.com/frankkopp/FrankyGo/internal/types"
	"github.com/frankkopp/FrankyGo/internal/uci"
)

// uciSession drives a real UciHandler through pipes exactly like a GUI does.
type uciSession struct {
	u     *uci.UciHandler
	in    *io.PipeWriter
	mu    sync.Mutex
	lines []string
	times []time.Time
	done  chan struct{}
	// gate, when armed, runs once while the engine is still writing its next bestmove line (the
	// reader has taken the first bytes of the line and the writer is blocked on the rest): a GUI
	// that answers a bestmove at once
	gate func()
}

func newUciSession() *uciSession {
	u := uci.NewUciHandler()
	inR, inW := io.Pipe()
	outR, outW := io.Pipe()
	u.InIo = bufio.NewScanner(inR)
	u.InIo.Buffer(make([]byte, 1<<20), 1<<20)
	u.OutIo = bufio.NewWriter(outW)
	s := &uciSession{u: u, in: inW, done: make(chan struct{})}
	go func() {
		var cur []byte
		big := make([]byte, 1<<16)
		for {
			s.mu.Lock()
			armed := s.gate != nil
			s.mu.Unlock()
			buf := big
			if armed {
				buf = big[:8] // small reads: the writer stays blocked inside its line
			}
			n, err := outR.Read(buf)
			for _, b := range buf[:n] {
				if b == '\n' {
					s.mu.Lock()
					s.lines = append(s.lines, strings.TrimRight(string(cur), "\r"))
					s.times = append(s.times, time.Now())
					s.mu.Unlock()
					cur = cur[:0]
				} else {
					cur = append(cur, b)
				}
			}
			if armed && len(cur) >= 8 && strings.HasPrefix(string(cur), "bestmove") {
				s.mu.Lock()
				g := s.gate
				s.gate = nil
				s.mu.Unlock()
				if g != nil {
					g()
				}
			}
			if err != nil {
				return
			}
		}
	}()
	go func() { u.Loop(); close(s.done) }()
	return s
}

func (s *uciSession) send(cmd string) { fmt.Fprintln(s.in, cmd) }

func (s *uciSession) count(prefix string) int {
	s.mu.Lock()
	defer s.mu.Unlock()
	n := 0
	for _, l := range s.lines {
		if strings.HasPrefix(l, prefix) {
			n++
		}
	}
	return n
}

func (s *uciSession) waitCount(prefix string, n int, d time.Duration) bool {
	deadline := time.Now().Add(d)
	for time.Now().Before(deadline) {
		if s.count(prefix) >= n {
			return true
		}
		time.Sleep(500 * time.Microsecond)
	}
	return s.count(prefix) >= n
}

func (s *uciSession) last(prefix string) string {
	s.mu.Lock()
	defer s.mu.Unlock()
	for i := len(s.lines) - 1; i >= 0; i-- {
		if strings.HasPrefix(s.lines[i], prefix) {
			return s.lines[i]
		}
	}
	return ""
}

func (s *uciSession) linesSince(i int) []string {
	s.mu.Lock()
	defer s.mu.Unlock()
	return append([]string{}, s.lines[i:]...)
}

func (s *uciSession) sync() bool { // isready/readyok round trip
	n := s.count("readyok")
	s.send("isready")
	return s.waitCount("readyok", n+1, 10*time.Second)
}

func (s *uciSession) quit() {
	s.send("quit")
	select {
	case <-s.done:
	case <-time.After(2 * time.Second):
	}
}

func (s *uciSession) configLines() map[string]string {
	// "Print Config" sends one info string per Settings field
	start := func() int { s.mu.Lock(); defer s.mu.Unlock(); return len(s.lines) }()
	s.send("setoption name Print Config")
	s.sync()
	s.mu.Lock()
	defer s.mu.Unlock()
	res := map[string]string{}
	for _, l := range s.lines[start:] {
		if strings.HasPrefix(l, "info string") && strings.Contains(l, "=") {
			f := strings.Fields(strings.TrimPrefix(l, "info string"))
			for i := range f {
				if f[i] == "=" && i >= 2 {
					res[f[i-2]] = strings.Join(f[i+1:], " ")
					break
				}
			}
		}
	}
	return res
}

// c12-monitor <sessions> <seed>: protocol-valid UCI sessions against the real handler: one bestmove
// per go (infinite/ponder only after stop / ponderhit), readyok while searching, prompt stop,
// go right after a bestmove, position = replay of the moves, setoption changes exactly the named
// option, ucinewgame + fixed depth search = fresh engine.
func c12Monitor(args []string) int {
	n, _ := strconv.Atoi(args[0])
	seed, _ := strconv.ParseUint(args[1], 10, 64)
	rng := NewRng(seed)
	wk := NewWalker(rng)
	corpus := loadCorpus()
	rep := NewReport("c12-monitor")
	defer restoreDefaults()
	options := []string{"Use_Hash", "Ponder", "Quiescence", "Use_QHash", "Use_SEE", "Use_PromNonQuiet", "Use_PVS", "Use_IID", "Use_Killer", "Use_HistCount",
		"Use_CounterMove", "Use_Rfp", "Use_NullMove", "Use_Mdp", "Use_Fp", "Use_Lmr", "Use_Lmp", "Use_Ext", "Use_ExtAddDepth", "Use_CheckExt", "Use_ThreatExt",
		"Eval_Lazy", "Eval_Mobility", "Eval_AdvPiece", "Use_Book"}
	// a short first game that leaves only a handful of hash entries, then ucinewgame: the next
	// fixed-depth search must equal the one of a fresh engine (tables of every size, also nearly empty ones)
	stripNT := func(x string) string {
		fs := strings.Fields(x)
		var o []string
		for i := 0; i < len(fs); i++ {
			if fs[i] == "nps" || fs[i] == "time" {
				i++
				continue
			}
			o = append(o, fs[i])
		}
		return strings.Join(o, " ")
	}
	for k := 0; k < 2; k++ {
		fen := []string{"r3k2r/p1ppqpb1/bn2pnp1/3PN3/1p2P3/2N2Q1p/PPPBBPPP/R3K2R w KQkq - 0 1", "r1bqkb1r/pp3ppp/2n1pn2/2p5/2pP4/5NP1/PP2PPBP/RNBQ1RK1 w kq - 0 1"}[k]
		hash := []string{"16", "64", "2", "128"}[rng.Intn(4)]
		d1 := 1 + rng.Intn(3)
		d2 := 3 + rng.Intn(2)
		run := func(first bool) (string, []string) {
			s := newUciSession()
			var script []string
			do := func(c string) { script = append(script, c); s.send(c) }
			do("setoption name Use_Book value false")
			do("setoption name Hash value " + hash)
			if first {
				do("position fen " + fen)
				do(fmt.Sprintf("go depth %d", d1))
				s.waitCount("bestmove", 1, 60*time.Second)
				do("ucinewgame")
			}
			do("position fen " + fen)
			b := s.count("bestmove")
			do(fmt.Sprintf("go depth %d", d2))
			s.waitCount("bestmove", b+1, 120*time.Second)
			res := stripNT(s.last(fmt.Sprintf("info depth %d", d2)) + " | " + s.last("bestmove"))
			s.quit()
			return res, script
		}
		a, script := run(true)
		b, _ := run(false)
		rep.Cases++
		rep.Stats["newgame_comparisons"]++
		if a != b {
			rep.Violate("ucinewgame-differs-from-fresh-engine", map[string]interface{}{"script": strings.Join(script, " ; "), "seed": seed}, "after ucinewgame: "+a+" ; fresh engine: "+b)
		}
	}
	for sess := 0; sess < n; sess++ {
		s := newUciSession()
		var script []string
		in := func() map[string]interface{} {
			return map[string]interface{}{"session": sess, "seed": seed, "script": strings.Join(script, " ; ")}
		}
		do := func(c string) { script = append(script, c); setCurrent(in()); s.send(c) }
		do("uci")
		if !s.waitCount("uciok", 1, 10*time.Second) {
			rep.Violate("uciok-missing", in(), "")
			continue
		}
		do("setoption name Use_Book value false")
		do("setoption name Hash value 2")
		if !s.sync() {
			rep.Violate("readyok-missing", in(), "after setoption")
			continue
		}
		// position commands alone (no search): start positions with special moves near, move
		// lists that prefer castling, en passant and all four promotions
		for j := 0; j < 40; j++ {
			fen := corpus[rng.Intn(len(corpus))]
			if rng.Bool() {
				fen = mirrorFen(fen)
			}
			p, _ := position.NewPositionFen(fen)
			if p == nil {
				continue
			}
			var moves []string
			for i, k := 0, 1+rng.Intn(6); i < k; i++ {
				cp := *p
				lm := wk.legalMoves(&cp)
				if len(lm) == 0 {
					break
				}
				var proms []types.Move
				for _, m := range lm {
					if m.MoveType() == types.Promotion {
						proms = append(proms, m)
					}
				}
				cp2 := *p
				m := wk.pick(&cp2, lm)
				if len(proms) > 0 && rng.Chance(60) {
					m = proms[rng.Intn(len(proms))]
				}
				if m.MoveType() == types.Promotion {
					rep.Stats["position_moves_promotion_"+m.PromotionType().String()]++
				}
				moves = append(moves, m.StringUci())
				p.DoMove(m)
			}
			cmd := "position fen " + fen
			if len(moves) > 0 {
				cmd += " moves " + strings.Join(moves, " ")
			}
			do(cmd)
			if !s.sync() {
				rep.Violate("readyok-missing", in(), "after position")
				break
			}
			rep.Stats["position_only_cases"]++
			if got := s.u.VerifPositionFen(); got != p.StringFen() || s.u.VerifPositionKey() != uint64(p.ZobristKey()) {
				rep.Violate("position-command-wrong-position", in(), "engine holds "+got+" expected "+p.StringFen())
				break
			}
			script = script[:len(script)-1] // keep the recorded script short: this command left no trace but the position
		}
		goCount := 0
		steps := 4 + rng.Intn(8)
		for st := 0; st < steps; st++ {
			// position
			games := 0
			var p *position.Position
			var moves []string
			if rng.Chance(70) {
				p = position.NewPosition()
				k := rng.Intn(14)
				for i := 0; i < k; i++ {
					lm := wk.legalMoves(p)
					if len(lm) == 0 {
						break
					}
					m := lm[rng.Intn(len(lm))]
					moves = append(moves, m.StringUci())
					p.DoMove(m)
				}
				cmd := "position startpos"
				if len(moves) > 0 {
					cmd += " moves " + strings.Join(moves, " ")
				}
				do(cmd)
			} else {
				fen := wk.randomPlacement(12)
				if rng.Chance(35) { // forced positions: one or two legal moves (single root move handling)
					if f := wk.forcedPlacement(); f != "" {
						fen = f
					}
				}
				if rng.Chance(50) { // corpus positions: promotions (all four kinds), en passant and castling are a move away
					fen = corpus[rng.Intn(len(corpus))]
					if rng.Bool() {
						fen = mirrorFen(fen)
					}
				}
				p, _ = position.NewPositionFen(fen)
				if p == nil {
					fen = position.StartFen
					p = position.NewPosition()
				}
				cmd := "position fen " + fen
				if rng.Chance(70) { // a move list after a FEN; special moves preferred
					k := 1 + rng.Intn(8)
					for i := 0; i < k; i++ {
						cp := *p
						lm := wk.legalMoves(&cp)
						if len(lm) == 0 {
							break
						}
						cp2 := *p
						m := wk.pick(&cp2, lm)
						moves = append(moves, m.StringUci())
						if m.MoveType() == types.Promotion {
							rep.Stats["position_moves_promotion_"+m.PromotionType().String()]++
						}
						p.DoMove(m)
					}
					if len(moves) > 0 {
						cmd += " moves " + strings.Join(moves, " ")
						rep.Stats["position_fen_with_moves"]++
					}
				}
				do(cmd)
			}
			_ = games
			if !s.sync() {
				rep.Violate("readyok-missing", in(), "after position")
				break
			}
			if got := s.u.VerifPositionFen(); got != p.StringFen() || s.u.VerifPositionKey() != uint64(p.ZobristKey()) {
				rep.Violate("position-command-wrong-position", in(), "engine holds "+got+" expected "+p.StringFen())
			}
			if len(wk.legalMoves(p)) == 0 {
				continue
			}
			side := "w"
			if strings.Fields(p.StringFen())[1] == "b" {
				side = "b"
			}
			_ = side
			rep.Cases++
			before := s.count("bestmove")
			switch rng.Intn(6) {
			case 0:
				do(fmt.Sprintf("go depth %d", 1+rng.Intn(3)))
				goCount++
				if !s.waitCount("bestmove", before+1, 30*time.Second) {
					rep.Violate("no-bestmove", in(), "depth search")
				}
			case 1:
				do(fmt.Sprintf("go movetime %d", 5+rng.Intn(60)))
				goCount++
				if !s.waitCount("bestmove", before+1, 30*time.Second) {
					rep.Violate("no-bestmove", in(), "movetime search")
				}
			case 2:
				do(fmt.Sprintf("go wtime %d btime %d winc 5 binc 5", 100+rng.Intn(400), 100+rng.Intn(400)))
				goCount++
				// isready while searching
				if rng.Chance(50) {
					t0 := time.Now()
					if !s.sync() || time.Since(t0) > 3*time.Second {
						rep.Violate("isready-not-answered-while-searching", in(), time.Since(t0).String())
					}
				}
				if !s.waitCount("bestmove", before+1, 30*time.Second) {
					rep.Violate("no-bestmove", in(), "clock search")
				}
			case 3:
				// an infinite search combined with limits that are reached at once still waits for stop
				do([]string{"go infinite", "go infinite", "go infinite nodes 50", "go infinite depth 1", "go infinite movetime 5", "go nodes 20 infinite"}[rng.Intn(6)])
				goCount++
				time.Sleep(time.Duration(rng.Intn(30)) * time.Millisecond)
				if rng.Chance(50) && !s.sync() {
					rep.Violate("isready-not-answered-while-searching", in(), "")
				}
				if s.count("bestmove") != before {
					rep.Violate("bestmove-before-stop", in(), "infinite search answered without stop: "+s.last("bestmove"))
				}
				t0 := time.Now()
				do("stop")
				if !s.waitCount("bestmove", before+1, 10*time.Second) {
					rep.Violate("no-bestmove", in(), "after stop")
				} else if el := time.Since(t0); el > 2*time.Second {
					rep.Violate("stop-not-prompt", in(), el.String())
				}
			case 4:
				if rng.Chance(35) { // pondering without a clock: ponderhit ends it at once (time budget 0)
					do([]string{"go ponder depth 2", "go ponder"}[rng.Intn(2)])
					goCount++
					time.Sleep(time.Duration(rng.Intn(15)) * time.Millisecond)
					do("ponderhit")
					if !s.waitCount("bestmove", before+1, 10*time.Second) {
						rep.Violate("no-bestmove", in(), "after ponderhit on a ponder search without clock")
						do("stop")
						s.waitCount("bestmove", before+1, 10*time.Second)
					}
					break
				}
				do([]string{"go ponder wtime 300 btime 300", "go ponder wtime 300 btime 300", "go ponder nodes 40 wtime 300 btime 300", "go ponder depth 1 wtime 300 btime 300", "go ponder nodes 30"}[rng.Intn(5)])
				goCount++
				time.Sleep(time.Duration(rng.Intn(25)) * time.Millisecond)
				if s.count("bestmove") != before {
					rep.Violate("bestmove-before-stop", in(), "ponder search answered without ponderhit/stop")
				}
				if rng.Bool() {
					do("ponderhit")
				} else {
					do("stop")
				}
				if !s.waitCount("bestmove", before+1, 10*time.Second) {
					rep.Violate("no-bestmove", in(), "after ponderhit/stop")
				}
			default:
				// a timed search that ends, then immediately an infinite one (stale timer scenario)
				do("go depth 1 wtime 60000 btime 60000")
				goCount++
				if !s.waitCount("bestmove", before+1, 30*time.Second) {
					rep.Violate("no-bestmove", in(), "depth 1 with clock")
					break
				}
				do("go infinite")
				goCount++
				time.Sleep(40 * time.Millisecond)
				if s.count("bestmove") != before+1 {
					rep.Violate("bestmove-before-stop", in(), "go infinite right after a bestmove was answered without stop")
				}
				do("stop")
				s.waitCount("bestmove", before+2, 10*time.Second)
			}
			if !s.sync() {
				rep.Violate("readyok-missing", in(), "after search")
				break
			}
			if got := s.count("bestmove"); got != goCount {
				rep.Violate("bestmove-count", in(), fmt.Sprintf("%d go commands, %d bestmove lines", goCount, got))
				goCount = got
			}
			// setoption with a spin value: exactly the TTSize line changes (0 is the announced minimum)
			if rng.Chance(25) {
				cfgA := s.configLines()
				v := []string{"0", "1", "2", "3", "4", "0"}[rng.Intn(6)]
				do("setoption name Hash value " + v)
				cfgB := s.configLines()
				var changed []string
				for k, val := range cfgB {
					if cfgA[k] != val {
						changed = append(changed, k+": "+cfgA[k]+" -> "+val)
					}
				}
				rep.Stats["setoption_commands"]++
				for _, c := range changed {
					if !strings.HasPrefix(c, "TTSize") {
						rep.Violate("setoption-does-not-change-exactly-the-named-option", in(), fmt.Sprintf("Hash value %s changed %v", v, changed))
						break
					}
				}
				do("setoption name Hash value 2")
				do("setoption name Use_Hash value true")
			}
			// setoption: exactly the named option changes
			if rng.Chance(40) {
				name := options[rng.Intn(len(options))]
				do("setoption name " + name + " value true")
				cfg1 := s.configLines()
				do("setoption name " + name + " value false")
				cfg2 := s.configLines()
				var changed []string
				for k, v := range cfg2 {
					if cfg1[k] != v {
						changed = append(changed, k+": "+cfg1[k]+" -> "+v)
					}
				}
				rep.Stats["setoption_commands"] += 2
				if len(changed) != 1 || !strings.HasSuffix(changed[0], "true -> false") {
					rep.Violate("setoption-does-not-change-exactly-the-named-option", in(), fmt.Sprintf("%s true -> false changed %v", name, changed))
				}
				if rng.Bool() {
					do("setoption name " + name + " value true")
				}
				// restore book off in any case
				do("setoption name Use_Book value false")
			}
		}
		// ucinewgame + fixed depth search = fresh engine (same option state: compare hash off and on)
		if rng.Chance(50) {
			useHash := []string{"true", "false"}[rng.Intn(2)]
			fen := "r3k2r/p1ppqpb1/bn2pnp1/3PN3/1p2P3/2N2Q1p/PPPBBPPP/R3K2R w KQkq - 0 1"
			do("setoption name Use_Hash value " + useHash)
			cfg := s.configLines()
			do("ucinewgame")
			do("position fen " + fen)
			before := s.count("bestmove")
			do("go depth 4")
			s.waitCount("bestmove", before+1, 60*time.Second)
			a := s.last("info depth 4") + " | " + s.last("bestmove")
			f := newUciSession()
			f.send("setoption name Use_Book value false")
			f.send("setoption name Hash value 2")
			// bring the fresh engine to the same option state
			cfgF := f.configLines()
			for _, name := range options {
				_ = name
			}
			_ = cfgF
			_ = cfg
			f.send("setoption name Use_Hash value " + useHash)
			f.send("position fen " + fen)
			f.send("go depth 4")
			f.waitCount("bestmove", 1, 60*time.Second)
			b := f.last("info depth 4") + " | " + f.last("bestmove")
			f.quit()
			strip := func(x string) string { // drop nps / time fields
				fs := strings.Fields(x)
				var o []string
				for i := 0; i < len(fs); i++ {
					if fs[i] == "nps" || fs[i] == "time" {
						i++
						continue
					}
					o = append(o, fs[i])
				}
				return strings.Join(o, " ")
			}
			rep.Stats["newgame_comparisons"]++
			// only comparable when the session left all search options at their defaults
			same := true
			d0 := f.configLines
			_ = d0
			if strip(a) != strip(b) && optionsAtDefault(cfg) {
				_ = same
				rep.Violate("ucinewgame-differs-from-fresh-engine", in(), "after ucinewgame: "+strip(a)+" ; fresh engine: "+strip(b))
			}
		}
		// an infinite search that has nothing left to search (depth limit reached) idles until stop; however long
		// the GUI takes to send it, the answer to stop is prompt
		if rng.Chance(20) {
			before := s.count("bestmove")
			do("position startpos")
			do([]string{"go infinite depth 1", "go ponder depth 1", "go infinite nodes 30"}[rng.Intn(3)])
			rep.Cases++
			rep.Stats["long_idle_before_stop"]++
			time.Sleep(time.Duration(2500+rng.Intn(1500)) * time.Millisecond)
			if s.count("bestmove") != before {
				rep.Violate("bestmove-before-stop", in(), "an infinite/ponder search with a reached limit answered without stop")
			}
			t0 := time.Now()
			do("stop")
			if !s.waitCount("bestmove", before+1, 15*time.Second) {
				rep.Violate("no-bestmove", in(), "after stop of an idling infinite search")
			} else if el := time.Since(t0); el > 1500*time.Millisecond {
				// a loaded machine can delay one answer: the scenario is repeated and only a second slow answer counts
				before2 := s.count("bestmove")
				do("go infinite depth 1")
				time.Sleep(3 * time.Second)
				t1 := time.Now()
				do("stop")
				if !s.waitCount("bestmove", before2+1, 15*time.Second) {
					rep.Violate("no-bestmove", in(), "after stop of an idling infinite search")
				} else if el2 := time.Since(t1); el2 > 1500*time.Millisecond {
					rep.Violate("stop-not-prompt", in(), fmt.Sprintf("bestmove %s and %s after stop (twice; the search had been idle for seconds)", el, el2))
				}
			}
		}
		// the GUI answers a bestmove while the line is still being written: the next search must not
		// inherit anything from the one that is just reporting
		if rng.Chance(60) {
			before := s.count("bestmove")
			fen := corpus[rng.Intn(len(corpus))]
			if p, _ := position.NewPositionFen(fen); p != nil && len(wk.legalMoves(p)) > 1 && !p.HasInsufficientMaterial() && p.HalfMoveClock() < 90 {
				mode := []string{"go infinite", "go ponder wtime 60000 btime 60000", "go depth 6"}[rng.Intn(3)]
				s.mu.Lock()
				s.gate = func() {
					s.send("position fen " + fen)
					s.send(mode)
					time.Sleep(150 * time.Millisecond)
				}
				s.mu.Unlock()
				mark := len(s.linesSince(0))
				do("position startpos")
				do("go depth 2")
				script = append(script, "(while the bestmove line is being written:) position fen "+fen, mode)
				rep.Cases++
				rep.Stats["go_while_bestmove_is_written"]++
				if !s.waitCount("bestmove", before+1, 30*time.Second) {
					rep.Violate("no-bestmove", in(), "depth search before the gated go")
				} else if mode != "go depth 6" {
					time.Sleep(400 * time.Millisecond)
					if s.count("bestmove") > before+1 {
						rep.Violate("bestmove-before-stop", in(), mode+" sent while the previous bestmove line was being written answered without stop")
					}
					do("stop")
					if !s.waitCount("bestmove", before+2, 10*time.Second) {
						rep.Violate("no-bestmove", in(), "after stop of the gated "+mode)
					}
				} else {
					if !s.waitCount("bestmove", before+2, 60*time.Second) {
						rep.Violate("no-bestmove", in(), "gated go depth 6")
					} else if !strings.Contains(strings.Join(s.linesSince(mark), "\n"), "info depth 6 ") {
						rep.Violate("bestmove-count", in(), "go depth 6 sent while the previous bestmove line was being written ended before depth 6")
					}
				}
				s.mu.Lock()
				s.gate = nil
				s.mu.Unlock()
			}
		}
		s.quit()
		rep.Distinct++
		if sess == 0 {
			rep.Sample(map[string]interface{}{"script": script})
		}
	}
	return rep.Emit()
}

var defaultCfgSnapshot map[string]string

func optionsAtDefault(cfg map[string]string) bool {
	if defaultCfgSnapshot == nil {
		f := newUciSession()
		f.send("setoption name Use_Book value false")
		f.send("setoption name Hash value 2")
		defaultCfgSnapshot = f.configLines()
		f.quit()
	}
	for k, v := range defaultCfgSnapshot {
		if k == "UseTT" || k == "UseBook" {
			continue
		}
		if cfg[k] != v {
			return false
		}
	}
	return true
}

func init() { register("c12-monitor", c12Monitor) }
