package main

import (
	"strconv"

	"github.com/frankkopp/FrankyGo/internal/movegen"
	"github.com/frankkopp/FrankyGo/internal/position"
	. "github.com/frankkopp/FrankyGo/internal/types"
)

// sanOf renders standard algebraic notation with minimal disambiguation (reference printer,
// independent of the engine's parser; uses the legal move list only to disambiguate).
func sanOf(p *position.Position, m Move, legal []Move, over bool) string {
	if m.MoveType() == Castling {
		if m.To().FileOf() == FileG {
			return "O-O"
		}
		return "O-O-O"
	}
	pt := p.GetPiece(m.From()).TypeOf()
	capture := p.GetPiece(m.To()) != PieceNone || m.MoveType() == EnPassant
	s := ""
	if pt == Pawn {
		if capture {
			s += m.From().FileOf().String()
		}
	} else {
		s += pt.Char()
		sameFile, sameRank, others := false, false, false
		for _, o := range legal {
			if o.MoveOf() != m.MoveOf() && o.To() == m.To() && p.GetPiece(o.From()).TypeOf() == pt && o.From() != m.From() {
				others = true
				if o.From().FileOf() == m.From().FileOf() {
					sameFile = true
				}
				if o.From().RankOf() == m.From().RankOf() {
					sameRank = true
				}
			}
		}
		if over { // over-disambiguated form: always file and rank
			s += m.From().String()
		} else if others {
			if !sameFile {
				s += m.From().FileOf().String()
			} else if !sameRank {
				s += m.From().RankOf().String()
			} else {
				s += m.From().String()
			}
		}
	}
	if capture {
		s += "x"
	}
	s += m.To().String()
	if m.MoveType() == Promotion {
		s += "=" + m.PromotionType().Char()
	}
	return s
}

// c17-monitor <n> <seed>: packed move encoding (exhaustive over the 65,536 move codes x boundary
// and sampled sort values), UCI and SAN round trips for every legal move of generated positions,
// ambiguous / illegal strings give no move.
func c17Monitor(args []string) int {
	n, _ := strconv.Atoi(args[0])
	seed, _ := strconv.ParseUint(args[1], 10, 64)
	rng := NewRng(seed)
	w := NewWalker(rng)
	rep := NewReport("c17-monitor")
	// ---- encoding
	values := []Value{ValueNA, ValueMin, ValueMax, -1, 0, 1, ValueNA + 1, 9999, -9999, ValueInf, -ValueInf}
	for from := SqA1; from < SqNone; from++ {
		for to := SqA1; to < SqNone; to++ {
			for mt := MoveType(0); mt < 4; mt++ {
				for prom := Knight; prom <= Queen; prom++ {
					vs := append([]Value{}, values...)
					vs = append(vs, Value(rng.Intn(20001)-10000))
					m0 := CreateMove(from, to, mt, prom)
					rep.Cases++
					if m0.From() != from || m0.To() != to || m0.MoveType() != mt || m0.PromotionType() != prom || m0.ValueOf() != ValueNA || m0.MoveOf() != m0 {
						rep.Violate("move-encoding", map[string]interface{}{"from": from.String(), "to": to.String(), "type": int(mt), "prom": prom.Char()}, "CreateMove fields not retrieved")
					}
					for _, v := range vs {
						m := CreateMoveValue(from, to, mt, prom, v)
						ok := m.From() == from && m.To() == to && m.MoveType() == mt && m.PromotionType() == prom && m.ValueOf() == v && m.MoveOf() == m0
						m2 := m0
						if m0 != MoveNone {
							m2.SetValue(v)
							ok = ok && m2.MoveOf() == m0 && m2.ValueOf() == v
							m3 := m
							m3.SetValue(0)
							ok = ok && m3.MoveOf() == m0 && m3.ValueOf() == 0
						}
						if !ok {
							rep.Violate("move-encoding", map[string]interface{}{"from": from.String(), "to": to.String(), "type": int(mt), "prom": prom.Char(), "value": int(v)}, "fields or value not retrieved independently")
						}
					}
				}
			}
		}
	}
	rep.Stats["move_codes"] = 65536
	// ---- notation
	mg := movegen.NewMoveGen()
	decos := []string{"", "+", "#", "!", "?", "!?", "+!", "#!!"}
	seen := map[uint64]bool{}
	w.Stream(n, true, func(g GamePos) {
		p := g.P
		fen := p.StringFen()
		if !seen[uint64(p.ZobristKey())] {
			seen[uint64(p.ZobristKey())] = true
			rep.Distinct++
		}
		legal := w.legalMoves(p)
		uciSet := map[string]bool{}
		for _, m := range legal {
			rep.Cases++
			us := m.StringUci()
			uciSet[us] = true
			if got := mg.GetMoveFromUci(p, us); got.MoveOf() != m.MoveOf() {
				rep.Violate("uci-roundtrip", map[string]interface{}{"fen": fen, "move": us}, "parsed back as "+got.StringUci())
			}
			for _, over := range []bool{false, true} {
				san := sanOf(p, m, legal, over)
				if over && p.GetPiece(m.From()).TypeOf() == Pawn {
					continue
				}
				d := decos[rng.Intn(len(decos))]
				if got := mg.GetMoveFromSan(p, san+d); got.MoveOf() != m.MoveOf() {
					rep.Violate("san-roundtrip", map[string]interface{}{"fen": fen, "move": us, "san": san + d}, "parsed back as "+got.StringUci())
				}
				if m.MoveType() == Promotion { // also without '='
					alt := san[:len(san)-2] + san[len(san)-1:]
					if got := mg.GetMoveFromSan(p, alt); got.MoveOf() != m.MoveOf() {
						rep.Violate("san-roundtrip", map[string]interface{}{"fen": fen, "move": us, "san": alt}, "parsed back as "+got.StringUci())
					}
				}
				rep.Stats["san_strings"]++
			}
			switch m.MoveType() {
			case Castling:
				rep.Stats["castling_moves"]++
			case Promotion:
				rep.Stats["promotion_moves"]++
			case EnPassant:
				rep.Stats["enpassant_moves"]++
			}
		}
		// strings denoting no legal move
		for k := 0; k < 6; k++ {
			s := Square(rng.Intn(64)).String() + Square(rng.Intn(64)).String()
			if rng.Chance(15) {
				s += "q"
			}
			if !uciSet[s] {
				rep.Cases++
				if got := mg.GetMoveFromUci(p, s); got != MoveNone {
					rep.Violate("uci-illegal-accepted", map[string]interface{}{"fen": fen, "string": s}, "parsed as "+got.StringUci())
				}
			}
		}
		// ambiguous SAN: drop the disambiguation where it was needed
		for _, m := range legal {
			pt := p.GetPiece(m.From()).TypeOf()
			if pt == Pawn || pt == King || m.MoveType() != Normal {
				continue
			}
			full := sanOf(p, m, legal, false)
			plain := pt.Char()
			if p.GetPiece(m.To()) != PieceNone {
				plain += "x"
			}
			plain += m.To().String()
			if full != plain {
				rep.Cases++
				rep.Stats["ambiguous_san_strings"]++
				if got := mg.GetMoveFromSan(p, plain); got != MoveNone {
					rep.Violate("san-ambiguous-accepted", map[string]interface{}{"fen": fen, "san": plain}, "parsed as "+got.StringUci())
				}
			}
		}
		rep.Sample(map[string]interface{}{"fen": fen, "legal_moves": len(legal)})
	})
	return rep.Emit()
}

func init() { register("c17-monitor", c17Monitor) }
