package main

import (
	"bufio"
	"fmt"
	"os"
	"strconv"
	"strings"

	"github.com/frankkopp/FrankyGo/internal/movegen"
	"github.com/frankkopp/FrankyGo/internal/position"
	. "github.com/frankkopp/FrankyGo/internal/types"
)

// sanOf renders standard algebraic notation with minimal disambiguation (reference printer,
// independent of the engine's parser; uses the legal move list only to disambiguate).
func sanOf(p *position.Position, m Move, legal []Move, over bool) string {
	if m.MoveType() == Castling {
		if m.To().FileOf() == FileG {
			return "O-O"
		}
		return "O-O-O"
	}
	pt := p.GetPiece(m.From()).TypeOf()
	capture := p.GetPiece(m.To()) != PieceNone || m.MoveType() == EnPassant
	s := ""
	if pt == Pawn {
		if capture {
			s += m.From().FileOf().String()
		}
	} else {
		s += pt.Char()
		sameFile, sameRank, others := false, false, false
		for _, o := range legal {
			if o.MoveOf() != m.MoveOf() && o.To() == m.To() && p.GetPiece(o.From()).TypeOf() == pt && o.From() != m.From() {
				others = true
				if o.From().FileOf() == m.From().FileOf() {
					sameFile = true
				}
				if o.From().RankOf() == m.From().RankOf() {
					sameRank = true
				}
			}
		}
		if over { // over-disambiguated form: always file and rank
			s += m.From().String()
		} else if others {
			if !sameFile {
				s += m.From().FileOf().String()
			} else if !sameRank {
				s += m.From().RankOf().String()
			} else {
				s += m.From().String()
			}
		}
	}
	if capture {
		s += "x"
	}
	s += m.To().String()
	if m.MoveType() == Promotion {
		s += "=" + m.PromotionType().Char()
	}
	return s
}

// c17-monitor <n> <seed>: packed move encoding (exhaustive over the 65,536 move codes x boundary
// and sampled sort values), UCI and SAN round trips for every legal move of generated positions,
// ambiguous / illegal strings give no move.
func c17Monitor(args []string) int {
	n, _ := strconv.Atoi(args[0])
	seed, _ := strconv.ParseUint(args[1], 10, 64)
	rng := NewRng(seed)
	w := NewWalker(rng)
	rep := NewReport("c17-monitor")
	// ---- encoding
	values := []Value{ValueNA, ValueMin, ValueMax, -1, 0, 1, ValueNA + 1, 9999, -9999, ValueInf, -ValueInf}
	for from := SqA1; from < SqNone; from++ {
		for to := SqA1; to < SqNone; to++ {
			for mt := MoveType(0); mt < 4; mt++ {
				for prom := Knight; prom <= Queen; prom++ {
					vs := append([]Value{}, values...)
					vs = append(vs, Value(rng.Intn(20001)-10000))
					m0 := CreateMove(from, to, mt, prom)
					rep.Cases++
					if m0.From() != from || m0.To() != to || m0.MoveType() != mt || m0.PromotionType() != prom || m0.ValueOf() != ValueNA || m0.MoveOf() != m0 {
						rep.Violate("move-encoding", map[string]interface{}{"from": from.String(), "to": to.String(), "type": int(mt), "prom": prom.Char()}, "CreateMove fields not retrieved")
					}
					for _, v := range vs {
						m := CreateMoveValue(from, to, mt, prom, v)
						ok := m.From() == from && m.To() == to && m.MoveType() == mt && m.PromotionType() == prom && m.ValueOf() == v && m.MoveOf() == m0
						m2 := m0
						if m0 != MoveNone {
							m2.SetValue(v)
							ok = ok && m2.MoveOf() == m0 && m2.ValueOf() == v
							m3 := m
							m3.SetValue(0)
							ok = ok && m3.MoveOf() == m0 && m3.ValueOf() == 0
						}
						if !ok {
							rep.Violate("move-encoding", map[string]interface{}{"from": from.String(), "to": to.String(), "type": int(mt), "prom": prom.Char(), "value": int(v)}, "fields or value not retrieved independently")
						}
					}
				}
			}
		}
	}
	rep.Stats["move_codes"] = 65536
	// ---- notation
	mg := movegen.NewMoveGen()
	decos := []string{"", "+", "#", "!", "?", "!?", "+!", "#!!"}
	seen := map[uint64]bool{}
	body := func(g GamePos) {
		p := g.P
		fen := p.StringFen()
		if !seen[uint64(p.ZobristKey())] {
			seen[uint64(p.ZobristKey())] = true
			rep.Distinct++
		}
		legal := w.legalMoves(p)
		uciSet := map[string]bool{}
		for _, m := range legal {
			rep.Cases++
			us := m.StringUci()
			uciSet[us] = true
			uciSet[strings.ToLower(us)] = true // the promotion letter is accepted in either case (UCI writes it in lower case)
			// the same generator object is used for other work between two parses (as the engine does with its
			// generators): the parsers' answers must not depend on what the object did before
			switch rng.Intn(6) {
			case 0:
				mg.GenerateLegalMoves(p, movegen.GenQuiet)
			case 1:
				mg.GenerateLegalMoves(p, movegen.GenNonQuiet)
			case 2:
				cp := *p
				cp.DoMove(m)
				mg.GenerateLegalMoves(&cp, movegen.GenAll)
			case 3:
				cp := *p
				cp.DoMove(m)
				mg.ValidateMove(&cp, m)
				mg.GeneratePseudoLegalMoves(&cp, movegen.GenAll, cp.HasCheck())
			}
			rep.Stats["parses_after_other_use_of_the_generator"]++
			if got := mg.GetMoveFromUci(p, us); got.MoveOf() != m.MoveOf() {
				rep.Violate("uci-roundtrip", map[string]interface{}{"fen": fen, "move": us}, "parsed back as "+got.StringUci())
			}
			for _, over := range []bool{false, true} {
				san := sanOf(p, m, legal, over)
				if over && p.GetPiece(m.From()).TypeOf() == Pawn {
					continue
				}
				d := decos[rng.Intn(len(decos))]
				if got := mg.GetMoveFromSan(p, san+d); got.MoveOf() != m.MoveOf() {
					rep.Violate("san-roundtrip", map[string]interface{}{"fen": fen, "move": us, "san": san + d}, "parsed back as "+got.StringUci())
				}
				if strings.Contains(san, "x") { // the capture sign is decoration: the same move without it
					bare := strings.Replace(san, "x", "", 1)
					if got := mg.GetMoveFromSan(p, bare+d); got.MoveOf() != m.MoveOf() {
						rep.Violate("san-roundtrip", map[string]interface{}{"fen": fen, "move": us, "san": bare + d}, "parsed back as "+got.StringUci())
					}
					rep.Stats["san_strings_without_capture_sign"]++
				}
				if m.MoveType() == Promotion { // also without '='
					alt := san[:len(san)-2] + san[len(san)-1:]
					if got := mg.GetMoveFromSan(p, alt); got.MoveOf() != m.MoveOf() {
						rep.Violate("san-roundtrip", map[string]interface{}{"fen": fen, "move": us, "san": alt}, "parsed back as "+got.StringUci())
					}
				}
				rep.Stats["san_strings"]++
			}
			switch m.MoveType() {
			case Castling:
				rep.Stats["castling_moves"]++
			case Promotion:
				rep.Stats["promotion_moves"]++
			case EnPassant:
				rep.Stats["enpassant_moves"]++
			}
		}
		// strings denoting no legal move
		for k := 0; k < 6; k++ {
			s := Square(rng.Intn(64)).String() + Square(rng.Intn(64)).String()
			if rng.Chance(15) {
				s += "q"
			}
			if !uciSet[s] && !uciSet[strings.ToLower(s)] {
				rep.Cases++
				if got := mg.GetMoveFromUci(p, s); got != MoveNone {
					rep.Violate("uci-illegal-accepted", map[string]interface{}{"fen": fen, "string": s}, "parsed as "+got.StringUci())
				}
			}
		}
		// ambiguous SAN: drop the disambiguation where it was needed
		for _, m := range legal {
			pt := p.GetPiece(m.From()).TypeOf()
			if pt == Pawn || pt == King || m.MoveType() != Normal {
				continue
			}
			full := sanOf(p, m, legal, false)
			plain := pt.Char()
			if p.GetPiece(m.To()) != PieceNone {
				plain += "x"
			}
			plain += m.To().String()
			if full != plain {
				rep.Cases++
				rep.Stats["ambiguous_san_strings"]++
				if got := mg.GetMoveFromSan(p, plain); got != MoveNone {
					rep.Violate("san-ambiguous-accepted", map[string]interface{}{"fen": fen, "san": plain}, "parsed as "+got.StringUci())
				}
			}
		}
		rep.Sample(map[string]interface{}{"fen": fen, "legal_moves": len(legal)})
	}
	w.Stream(n, true, body)
	// an officer on a king's home square that can go to a corner of its rank while castling rights still exist
	// (the coordinate strings e1a1 / e1h1 / e8a8 / e8h8 are then ordinary moves, not castling spellings)
	for k := 0; k < 6+n/100; k++ {
		var board [64]byte
		for i := range board {
			board[i] = ' '
		}
		white := rng.Bool()
		home, far := 0, 56 // rank offsets of the mover's and the opponent's back rank
		if !white {
			home, far = 56, 0
		}
		up := func(c byte) byte {
			if white {
				return c
			}
			return c + 32
		}
		down := func(c byte) byte {
			if white {
				return c + 32
			}
			return c
		}
		board[home+4] = up("RQ"[rng.Intn(2)])
		board[home+[]int{1, 2, 6}[rng.Intn(3)]] = up('K')
		board[far+4] = down('K')
		if white { // the file between the officer and the other king is closed
			board[8+4] = 'P'
		} else {
			board[48+4] = 'p'
		}
		rights := ""
		if rng.Bool() {
			board[far+7] = down('R')
			rights += string(down('K'))
		}
		if rights == "" || rng.Bool() {
			board[far+0] = down('R')
			rights += string(down('Q'))
		}
		if white { // FEN order: white rights first (none here), then black
			rights = strings.ToLower(rights)
		} else {
			rights = strings.ToUpper(rights)
		}
		for i, cnt := 0, rng.Intn(5); i < cnt; i++ {
			sq := 8 + rng.Intn(48)
			if board[sq] == ' ' {
				board[sq] = "PNBpnb"[rng.Intn(6)]
			}
		}
		stm := "w"
		if !white {
			stm = "b"
		}
		fen := compressFenBoard(board) + " " + stm + " " + rights + " - 0 1"
		p, err := position.NewPositionFen(fen)
		if err != nil || p == nil || p.IsAttacked(p.KingSquare(p.NextPlayer().Flip()), p.NextPlayer()) {
			continue
		}
		rep.Stats["officer_on_king_home_square_positions"]++
		body(GamePos{Root: fen, P: p})
	}
	return rep.Emit()
}

func init() { register("c17-monitor", c17Monitor) }

// c17-cases <n> <seed> <out.v>: observations of the real encoding functions for the Coq model
// (MoveEnc.enc_create_ok / enc_get_ok / enc_set_ok).
func c17Cases(args []string) int {
	n, _ := strconv.Atoi(args[0])
	seed, _ := strconv.ParseUint(args[1], 10, 64)
	rng := NewRng(seed)
	f, err := os.Create(args[2])
	if err != nil {
		die(err)
	}
	defer f.Close()
	w := bufio.NewWriter(f)
	defer w.Flush()
	rep := NewReport("c17-cases")
	w.WriteString("(* GENERATED by verifh c17-cases: observations of the real move encoding functions *)\nFrom Coq Require Import ZArith NArith List.\nFrom FG Require Import MoveEnc CasesEnc.\nImport ListNotations.\n")
	w.WriteString("Definition cases : list (N*N*N*N*Z*N*N * (N*N*N*N*N*Z*N*bool) * (N*Z*N)) := [\n")
	vals := []int{-15001, -10000, 10000, -1, 0, 1, 15000, -15000, 32767, -32768, 9871, -9872}
	zl := func(v int) string { return fmt.Sprintf("(%d)%%Z", v) }
	for i := 0; i < n; i++ {
		from, to := Square(rng.Intn(64)), Square(rng.Intn(64))
		ty := MoveType(rng.Intn(4))
		pr := PieceType(rng.Intn(7))
		v := vals[rng.Intn(len(vals))]
		if rng.Bool() {
			v = rng.Intn(65536) - 32768
		}
		cm := CreateMove(from, to, ty, pr)
		cmv := CreateMoveValue(from, to, ty, pr, Value(v))
		m32 := Move(uint32(rng.U64()))
		if rng.Chance(30) {
			m32 = cmv
		}
		if rng.Chance(5) {
			m32 = 0
		}
		sm := Move(uint32(rng.U64()))
		if rng.Chance(10) {
			sm = 0
		}
		sv := vals[rng.Intn(len(vals))]
		if rng.Bool() {
			sv = rng.Intn(65536) - 32768
		}
		sm2 := sm
		got := sm2.SetValue(Value(sv))
		if i > 0 {
			w.WriteString(";\n")
		}
		fmt.Fprintf(w, "(%d%%N,%d%%N,%d%%N,%d%%N,%s,%d%%N,%d%%N,(%d%%N,%d%%N,%d%%N,%d%%N,%d%%N,%s,%d%%N,%v),(%d%%N,%s,%d%%N))",
			from, to, ty, pr, zl(v), uint32(cm), uint32(cmv),
			uint32(m32), m32.From(), m32.To(), m32.MoveType(), m32.PromotionType(), zl(int(m32.ValueOf())), uint32(m32.MoveOf()), m32.IsValid(),
			uint32(sm), zl(sv), uint32(got))
		rep.Cases++
	}
	w.WriteString("].\nDefinition M := Eval vm_compute in (enc_mismatches cases).\nPrint M.\n")
	// notation: (fen, string, is_san, observed 16-bit code or 0)
	w.WriteString("From FG Require Import CasesNotation.\nFrom Coq Require Import String.\nOpen Scope string_scope.\n")
	w.WriteString("Definition ncases : list (string * string * bool * N) := [\n")
	wk := NewWalker(rng)
	mgn := movegen.NewMoveGen()
	firstn := true
	emit := func(fen, str string, isSan bool, got Move) {
		if strings.ContainsAny(str, "\"\\") {
			return
		}
		if !firstn {
			w.WriteString(";\n")
		}
		firstn = false
		fmt.Fprintf(w, "(\"%s\",\"%s\",%v,%d%%N)", fen, str, isSan, uint32(got.MoveOf()))
		rep.Cases++
	}
	npos := 0
	wk.Stream(n/4+40, true, func(g GamePos) {
		if npos >= n/12+6 || (len(g.Moves) > 0 && !rng.Chance(20)) {
			return
		}
		p, err := position.NewPositionFen(g.P.StringFen())
		if err != nil || p == nil {
			return
		}
		npos++
		fen := p.StringFen()
		legal := wk.legalMoves(p)
		for _, m := range legal {
			if !rng.Chance(40) && m.MoveType() == Normal {
				continue
			}
			us := m.StringUci()
			emit(fen, us, false, mgn.GetMoveFromUci(p, us))
			emit(fen, strings.ToLower(us), false, mgn.GetMoveFromUci(p, strings.ToLower(us)))
			for _, over := range []bool{false, true} {
				san := sanOf(p, m, legal, over) + []string{"", "+", "#", "!?"}[rng.Intn(4)]
				emit(fen, san, true, mgn.GetMoveFromSan(p, san))
			}
		}
		for _, junk := range []string{"", "e2e4x", "xe2e4", "e4=N", "Kg1", "0-0", "O-O=Q", "KO-O", "Nxf3", "e2e5", "a7a8", "a7a8q", "a7a8k", "Qd4", "Ne5", "1. e4", " e2e4", "e2e4 "} {
			emit(fen, junk, true, mgn.GetMoveFromSan(p, junk))
			emit(fen, junk, false, mgn.GetMoveFromUci(p, junk))
		}
	})
	w.WriteString("].\nDefinition MN := Eval vm_compute in (notation_mismatches ncases).\nPrint MN.\n")
	rep.Distinct = rep.Cases
	rep.Sample(map[string]interface{}{"CreateMoveValue(e2,e4,Normal,Knight,-10000)": uint32(CreateMoveValue(SqE2, SqE4, Normal, Knight, -10000))})
	return rep.Emit()
}

func init() { register("c17-cases", c17Cases) }
