package main

import (
	"os"
	"sync"
	"time"

	"github.com/frankkopp/FrankyGo/internal/config"
	"github.com/frankkopp/FrankyGo/internal/evaluator"
	"github.com/frankkopp/FrankyGo/internal/movegen"
	"github.com/frankkopp/FrankyGo/internal/moveslice"
	"github.com/frankkopp/FrankyGo/internal/position"
	"github.com/frankkopp/FrankyGo/internal/search"
	. "github.com/frankkopp/FrankyGo/internal/types"
)

// captureDriver implements uciInterface.UciDriver and records what the search reports.
type captureDriver struct {
	mu        sync.Mutex
	iterPvs   [][]Move // pv of every "info depth ... pv" line
	iterDepth []int
	iterValue []Value
	results   [][2]Move // bestmove, ponder
	readyoks  int
	infos     []string
	resultAt  []time.Time
}

func (d *captureDriver) SendReadyOk() { d.mu.Lock(); d.readyoks++; d.mu.Unlock() }
func (d *captureDriver) SendInfoString(info string) {
	d.mu.Lock()
	d.infos = append(d.infos, info)
	d.mu.Unlock()
}
func (d *captureDriver) SendIterationEndInfo(depth int, seldepth int, value Value, nodes uint64, nps uint64, t time.Duration, pv moveslice.MoveSlice) {
	d.mu.Lock()
	cp := make([]Move, len(pv))
	copy(cp, pv)
	d.iterPvs = append(d.iterPvs, cp)
	d.iterDepth = append(d.iterDepth, depth)
	d.iterValue = append(d.iterValue, value)
	d.mu.Unlock()
}
func (d *captureDriver) SendAspirationResearchInfo(depth int, seldepth int, value Value, bound string, nodes uint64, nps uint64, t time.Duration, pv moveslice.MoveSlice) {
}
func (d *captureDriver) SendCurrentRootMove(currMove Move, moveNumber int) {}
func (d *captureDriver) SendSearchUpdate(depth int, seldepth int, nodes uint64, nps uint64, t time.Duration, hashfull int) {
}
func (d *captureDriver) SendCurrentLine(moveList moveslice.MoveSlice) {}
func (d *captureDriver) SendResult(bestMove Move, ponderMove Move) {
	d.mu.Lock()
	d.results = append(d.results, [2]Move{bestMove, ponderMove})
	d.resultAt = append(d.resultAt, time.Now())
	d.mu.Unlock()
}
func (d *captureDriver) nResults() int { d.mu.Lock(); defer d.mu.Unlock(); return len(d.results) }

// waitResults waits (bounded) until n results have been delivered: the engine gives up its running
// state right before it sends the result, so a result may arrive shortly after WaitWhileSearching.
func (d *captureDriver) waitResults(n int) int {
	deadline := time.Now().Add(3 * time.Second)
	for d.nResults() < n && time.Now().Before(deadline) {
		time.Sleep(200 * time.Microsecond)
	}
	return d.nResults()
}

func (d *captureDriver) waitResultsFor(n int, dur time.Duration) int {
	deadline := time.Now().Add(dur)
	for d.nResults() < n && time.Now().Before(deadline) {
		time.Sleep(200 * time.Microsecond)
	}
	return d.nResults()
}

// switch vectors --------------------------------------------------------------

type soundCfg struct {
	PVS, Killer, History, Counter, IID, MDP, TT, QS bool
}

func allUnsoundOff() {
	s := &config.Settings.Search
	s.UseBook = false
	s.UseRazoring = false
	s.UseRFP = false
	s.UseNullMove = false
	s.UseExt = false
	s.UseCheckExt = false
	s.UseThreatExt = false
	s.UseFP = false
	s.UseQFP = false
	s.UseLmp = false
	s.UseLmr = false
	s.UseEvalTT = false
	s.UseTTValue = false
	s.UseAspiration = false
}

func applySound(c soundCfg) {
	allUnsoundOff()
	s := &config.Settings.Search
	s.UsePVS = c.PVS
	s.UseKiller = c.Killer
	s.UseHistoryCounter = c.History
	s.UseCounterMoves = c.Counter
	s.UseIID = c.IID
	s.IIDDepth = 2
	s.IIDReduction = 1
	s.UseMDP = c.MDP
	s.UseTT = c.TT
	s.TTSize = 2
	s.UseTTMove = c.TT
	s.UseQSTT = c.TT
	s.UseQuiescence = c.QS
	if os.Getenv("VERIF_DBG_NOSEE") != "" {
		s.UseSEE = false
	}
	if os.Getenv("VERIF_DBG_NOSTANDPAT") != "" {
		s.UseQSStandpat = false
	}
	if os.Getenv("VERIF_DBG_NOPNQ") != "" {
		s.UsePromNonQuiet = false
	}
}

func soundFromBits(b int, qs bool) soundCfg {
	return soundCfg{PVS: b&1 != 0, Killer: b&2 != 0, History: b&4 != 0, Counter: b&8 != 0, IID: b&16 != 0, MDP: b&32 != 0, TT: b&64 != 0, QS: qs}
}

var savedSearchCfg = config.Settings.Search

func restoreDefaults() {
	config.Settings.Search = savedSearchCfg
	config.Settings.Search.UseBook = false
}

// runDepthSearch runs a fresh search to a fixed depth and waits for it (with a watchdog).
func runDepthSearch(p *position.Position, depth int, timeout time.Duration) (*search.Result, *captureDriver, bool) {
	s := search.NewSearch()
	d := &captureDriver{}
	s.SetUciHandler(d)
	sl := search.NewSearchLimits()
	sl.Depth = depth
	done := make(chan struct{})
	go func() {
		s.StartSearch(*p, *sl)
		s.WaitWhileSearching()
		close(done)
	}()
	select {
	case <-done:
	case <-time.After(timeout):
		// a depth-limited search has no time bound; on a loaded machine it may simply be slow. It must
		// end when told to stop: only then is it safe to go on (the configuration is global). A search
		// that was slow and then stopped is reported as (nil, d, true): the caller skips the case.
		go s.StopSearch()
		select {
		case <-done:
			slowSearchesStopped++
			return nil, d, true
		case <-time.After(30 * time.Second):
			return nil, d, false
		}
	}
	r := s.LastSearchResult()
	return &r, d, true
}

var slowSearchesStopped int

// reference minimax (shares nothing with alphabeta.go): the engine's own generator,
// evaluator and draw test; quiescence off.
type refSearch struct {
	mg     []*movegen.Movegen
	eval   *evaluator.Evaluator
	nodes  int
	budget int // 0 = unlimited; when exceeded the result is meaningless and the caller skips the case
}

func newRefSearch() *refSearch {
	r := &refSearch{eval: evaluator.NewEvaluator()}
	for i := 0; i < 12; i++ {
		r.mg = append(r.mg, movegen.NewMoveGen())
	}
	return r
}

func isDraw(p *position.Position) bool { return p.CheckRepetitions(2) || p.HalfMoveClock() >= 100 }

func (r *refSearch) minimax(p *position.Position, depth, ply int) Value {
	r.nodes++
	if depth == 0 {
		return r.eval.Evaluate(p)
	}
	ml := r.mg[ply].GenerateLegalMoves(p, movegen.GenAll)
	moves := make([]Move, len(*ml))
	copy(moves, *ml)
	if len(moves) == 0 {
		if p.HasCheck() {
			return -ValueCheckMate + Value(ply)
		}
		return ValueDraw
	}
	best := Value(-32000)
	for _, m := range moves {
		p.DoMove(m)
		var v Value
		if isDraw(p) {
			v = ValueDraw
		} else {
			v = -r.minimax(p, depth-1, ply+1)
		}
		p.UndoMove()
		if v > best {
			best = v
		}
	}
	return best
}

// rootValues returns the minimax value of every root move (0 for a drawing move).
func (r *refSearch) rootValues(p *position.Position, depth int) (map[Move]Value, Value) {
	res := map[Move]Value{}
	ml := r.mg[0].GenerateLegalMoves(p, movegen.GenAll)
	moves := make([]Move, len(*ml))
	copy(moves, *ml)
	best := Value(-32000)
	for _, m := range moves {
		p.DoMove(m)
		var v Value
		if isDraw(p) {
			v = ValueDraw
		} else {
			v = -r.minimax(p, depth-1, 1)
		}
		p.UndoMove()
		res[m.MoveOf()] = v
		if v > best {
			best = v
		}
	}
	return res, best
}

// reference quiescence (no windows, no ordering): the value the engine's qsearch computes when nothing
// is cut: stand-pat value when not in check, all moves when in check, otherwise the non-quiet moves the
// engine's generator delivers that pass the good-capture test; mate when in check without legal moves.
func (r *refSearch) quiesce(p *position.Position, ply int) Value {
	r.nodes++
	if r.budget > 0 && r.nodes >= r.budget {
		return 0
	}
	if ply >= MaxDepth {
		return r.eval.Evaluate(p)
	}
	inCheck := p.HasCheck()
	best := Value(-32000)
	if !inCheck {
		best = r.eval.Evaluate(p)
	}
	mode := movegen.GenNonQuiet
	if inCheck {
		mode = movegen.GenAll
	}
	mg := movegen.NewMoveGen()
	ml := mg.GeneratePseudoLegalMoves(p, mode, false)
	moves := make([]Move, len(*ml))
	copy(moves, *ml)
	searched := 0
	for _, m := range moves {
		if !inCheck {
			good := false
			if config.Settings.Search.UseSEE {
				good = search.VerifSee(p, m) > 0
			} else {
				good = p.GetPiece(m.From()).ValueOf()+50 < p.GetPiece(m.To()).ValueOf() ||
					(p.LastMove() != MoveNone && p.LastMove().To() == m.To() && p.LastCapturedPiece() != PieceNone) ||
					!p.IsAttacked(m.To(), p.NextPlayer().Flip())
			}
			if !good {
				continue
			}
		}
		p.DoMove(m)
		if !p.WasLegalMove() {
			p.UndoMove()
			continue
		}
		var v Value
		if inCheck && isDraw(p) {
			v = ValueDraw
		} else {
			v = -r.quiesce(p, ply+1)
		}
		p.UndoMove()
		searched++
		if v > best {
			best = v
		}
	}
	if searched == 0 && inCheck {
		return -ValueCheckMate + Value(ply)
	}
	return best
}

// minimaxQ: depth-d minimax with the reference quiescence at the horizon
func (r *refSearch) minimaxQ(p *position.Position, depth, ply int) Value {
	if depth == 0 {
		return r.quiesce(p, ply)
	}
	mg := movegen.NewMoveGen()
	ml := mg.GenerateLegalMoves(p, movegen.GenAll)
	moves := make([]Move, len(*ml))
	copy(moves, *ml)
	if len(moves) == 0 {
		if p.HasCheck() {
			return -ValueCheckMate + Value(ply)
		}
		return ValueDraw
	}
	best := Value(-32000)
	for _, m := range moves {
		p.DoMove(m)
		var v Value
		if isDraw(p) {
			v = ValueDraw
		} else {
			v = -r.minimaxQ(p, depth-1, ply+1)
		}
		p.UndoMove()
		if v > best {
			best = v
		}
	}
	return best
}

// the same reference with plain fail-hard alpha-beta (natural generation order, no other technique):
// exact at the root, fast enough for rich positions
func (r *refSearch) quiesceAB(p *position.Position, ply int, alpha, beta Value) Value {
	r.nodes++
	if ply >= MaxDepth {
		return r.eval.Evaluate(p)
	}
	inCheck := p.HasCheck()
	if !inCheck {
		sp := r.eval.Evaluate(p)
		if sp >= beta {
			return beta
		}
		if sp > alpha {
			alpha = sp
		}
	}
	mode := movegen.GenNonQuiet
	if inCheck {
		mode = movegen.GenAll
	}
	mg := movegen.NewMoveGen()
	ml := mg.GeneratePseudoLegalMoves(p, mode, false)
	moves := make([]Move, len(*ml))
	copy(moves, *ml)
	searched := 0
	for _, m := range moves {
		if !inCheck {
			if config.Settings.Search.UseSEE {
				if search.VerifSee(p, m) <= 0 {
					continue
				}
			}
		}
		p.DoMove(m)
		if !p.WasLegalMove() {
			p.UndoMove()
			continue
		}
		var v Value
		if inCheck && isDraw(p) { // the engine tests repetition / fifty moves in quiescence only below checked nodes
			v = ValueDraw
		} else {
			v = -r.quiesceAB(p, ply+1, -beta, -alpha)
		}
		p.UndoMove()
		searched++
		if v >= beta {
			return beta
		}
		if v > alpha {
			alpha = v
		}
	}
	if searched == 0 && inCheck {
		m := -ValueCheckMate + Value(ply)
		if m >= beta {
			return beta
		}
		if m > alpha {
			return m
		}
		return alpha
	}
	return alpha
}

func (r *refSearch) alphaBetaQ(p *position.Position, depth, ply int, alpha, beta Value) Value {
	if depth == 0 {
		return r.quiesceAB(p, ply, alpha, beta)
	}
	mg := movegen.NewMoveGen()
	ml := mg.GenerateLegalMoves(p, movegen.GenAll)
	moves := make([]Move, len(*ml))
	copy(moves, *ml)
	if len(moves) == 0 {
		v := ValueDraw
		if p.HasCheck() {
			v = -ValueCheckMate + Value(ply)
		}
		if v >= beta {
			return beta
		}
		if v > alpha {
			return v
		}
		return alpha
	}
	for _, m := range moves {
		p.DoMove(m)
		var v Value
		if isDraw(p) {
			v = ValueDraw
		} else {
			v = -r.alphaBetaQ(p, depth-1, ply+1, -beta, -alpha)
		}
		p.UndoMove()
		if v >= beta {
			return beta
		}
		if v > alpha {
			alpha = v
		}
	}
	return alpha
}
