package main

import (
	"fmt"
	"os"
	"strconv"
	"strings"
	"time"

	"github.com/frankkopp/FrankyGo/internal/config"
	"github.com/frankkopp/FrankyGo/internal/movegen"
	"github.com/frankkopp/FrankyGo/internal/position"
	"github.com/frankkopp/FrankyGo/internal/search"
	. "github.com/frankkopp/FrankyGo/internal/types"
)

// randomFeatureSwitches sets every search feature switch at random (sound and unsound).
func randomFeatureSwitches(rng *Rng) string {
	s := &config.Settings.Search
	*s = savedSearchCfg
	s.UseBook = false
	s.TTSize = 2
	flip := func(b *bool) { *b = rng.Bool() }
	for _, b := range []*bool{&s.UseQuiescence, &s.UseQSStandpat, &s.UseSEE, &s.UsePromNonQuiet, &s.UsePVS, &s.UseIID, &s.UseKiller,
		&s.UseHistoryCounter, &s.UseCounterMoves, &s.UseTT, &s.UseTTMove, &s.UseTTValue, &s.UseQSTT, &s.UseMDP, &s.UseRazoring,
		&s.UseRFP, &s.UseNullMove, &s.UseExt, &s.UseExtAddDepth, &s.UseCheckExt, &s.UseThreatExt, &s.UseFP, &s.UseQFP, &s.UseLmp, &s.UseLmr} {
		flip(b)
	}
	if rng.Chance(30) { // the default configuration is the most important one
		*s = savedSearchCfg
		s.UseBook = false
		s.TTSize = 2
	}
	s.IIDDepth = 2 + rng.Intn(5)
	return fmt.Sprintf("%+v", *s)
}

func featureSwitches() []*bool {
	s := &config.Settings.Search
	return []*bool{&s.UseQuiescence, &s.UseQSStandpat, &s.UseSEE, &s.UsePromNonQuiet, &s.UsePVS, &s.UseIID, &s.UseKiller,
		&s.UseHistoryCounter, &s.UseCounterMoves, &s.UseTT, &s.UseTTMove, &s.UseTTValue, &s.UseQSTT, &s.UseMDP, &s.UseRazoring,
		&s.UseRFP, &s.UseNullMove, &s.UseExt, &s.UseExtAddDepth, &s.UseCheckExt, &s.UseThreatExt, &s.UseFP, &s.UseQFP, &s.UseLmp, &s.UseLmr}
}

const nFeatureSwitches = 25

// singleSwitchOff: the default configuration with exactly one feature switch inverted to off
func singleSwitchOff(i int) string {
	s := &config.Settings.Search
	*s = savedSearchCfg
	s.UseBook = false
	s.TTSize = 2
	*featureSwitches()[i] = false
	return fmt.Sprintf("default with switch #%d off: %+v", i, *s)
}

func playable(mg *movegen.Movegen, start *position.Position, line []Move) (bool, int) {
	p := *start
	for i, m := range line {
		if !mg.ValidateMove(&p, m.MoveOf()) {
			return false, i
		}
		p.DoMove(m.MoveOf())
	}
	return true, -1
}

// c05-monitor <n> <seed>: searches under random limits/switches/stop moments, sharing hash and
// history between searches; validates best move, ponder move, every reported PV, termination and
// that the caller's position is untouched.
func c05Monitor(args []string) int {
	n, _ := strconv.Atoi(args[0])
	seed, _ := strconv.ParseUint(args[1], 10, 64)
	rng := NewRng(seed)
	w := NewWalker(rng)
	rep := NewReport("c05-monitor")
	defer restoreDefaults()
	mg := movegen.NewMoveGen()
	var positions []GamePos
	w.Stream(n*6, true, func(g GamePos) {
		if len(positions) < n && (rng.Chance(25) || len(g.Moves) == 0 && rng.Chance(40)) {
			cp := *g.P
			positions = append(positions, GamePos{Root: g.Root, Moves: g.Moves, P: &cp})
		}
	})
	// drawn roots must be answered with a legal move as well
	for _, fen := range []string{"8/8/8/8/8/k7/8/K6R w - - 100 80", "8/8/8/8/8/k7/8/K6R w - - 120 90", "r7/p1ppkPb1/bn3n2/8/4P2r/1pN2Q1p/PPPBBPPP/R3K2R w KQ - 0 5"} {
		p, _ := position.NewPositionFen(fen)
		positions = append(positions, GamePos{Root: fen, P: p})
	}
	// roots at which a move draws at once (clock 99 -> 100, or a third occurrence): such a root move is not searched
	for _, fen := range []string{"6k1/5ppp/q3p3/3p4/8/8/8/3R2K1 w - - 99 80", "8/8/8/8/8/k7/8/K6R w - - 99 80", "r3k3/8/8/8/8/8/4PPPP/4K2R w K - 99 60", "6k1/5ppp/8/8/8/8/q7/1K1R4 w - - 98 70"} {
		p, _ := position.NewPositionFen(fen)
		positions = append(positions, GamePos{Root: fen, P: p})
	}
	for k := 0; k < 6; k++ {
		if g, ok := w.shuffleGame(); ok {
			cp := *g.P
			positions = append(positions, GamePos{Root: g.Root, Moves: g.Moves, P: &cp})
		}
	}
	// roots with several captures that are answered by a recapture (a continuation exists below the first root moves)
	for _, fen := range []string{"r1bqkb1r/ppp2ppp/2n1pn2/3p4/3PP3/2N2N2/PPP2PPP/R1BQKB1R w KQkq - 0 5",
		"r3k2r/p1ppqpb1/bn2pnp1/3PN3/1p2P3/2N2Q1p/PPPBBPPP/R3K2R w KQkq - 0 1", "r1bq1rk1/pp2ppbp/2np1np1/8/3NP3/2N1BP2/PPPQ2PP/R3KB1R b KQ - 2 8"} {
		p, _ := position.NewPositionFen(fen)
		positions = append([]GamePos{{Root: fen, P: p}}, positions...)
	}
	// wide positions (more than 64 legal moves: fixed-size move/reduction tables) searched a few
	// hundred thousand nodes deep with every feature switch turned off singly
	forceCfg := map[int]int{} // position index -> index of the switch that is off
	wideNodes := map[int]uint64{}
	{
		shard := int(seed % 4)
		k := 0
		for _, fen := range []string{"q1qq2k1/5ppp/1q2q3/8/8/1Q2Q3/5PPP/Q1QQ2K1 w - - 0 1", "R6R/3Q4/1Q4Q1/4Q3/2Q4Q/Q4Q2/pp1Q4/kBNN1KB1 w - - 0 1"} {
			for sw := 0; sw < nFeatureSwitches; sw++ {
				k++
				if n < 100 && k%4 != shard { // quick tier: the shards share the list
					continue
				}
				p, _ := position.NewPositionFen(fen)
				forceCfg[len(positions)] = sw
				wideNodes[len(positions)] = 300000
				positions = append(positions, GamePos{Root: fen, P: p})
			}
		}
	}
	wideEnd := len(positions)
	_ = wideEnd
	// sweep of tiny node limits: the stop fires inside the first iteration, between root moves,
	// inside the first quiescence search, ... (cheap: a few dozen nodes each)
	forceNodes := map[int]uint64{}
	base := len(positions)
	for k := 0; k < base; k += 2 {
		if _, wide := forceCfg[k]; wide {
			continue
		}
		for j := 1; j <= 48; j++ { // every limit: the window in which a stop lands between two root moves is one node wide
			cp := *positions[k].P
			forceNodes[len(positions)] = uint64(j)
			positions = append(positions, GamePos{Root: positions[k].Root, Moves: positions[k].Moves, P: &cp})
		}
	}
	// twin positions: the same placement with and without a pending en-passant right (or with one castling
	// right less), searched one after the other on one engine with the hash table on: what the first search
	// left in the table must not surface as an impossible move in the second
	twin := map[int]int{} // 1 = first of a pair (fresh engine), 2 = second (same engine, nothing cleared)
	{
		var cands []GamePos
		perFile := map[string]int{}
		w.Stream(n*40, true, func(g GamePos) {
			if len(cands) >= 8*(2+n/80) {
				return
			}
			cp := *g.P
			for _, m := range w.legalMoves(&cp) {
				if g.P.GetPiece(m.From()).TypeOf() == Pawn && SquareDistance(m.From(), m.To()) == 2 && m.From().FileOf() == m.To().FileOf() {
					q := *g.P
					q.DoMove(m)
					if fl := f3file(q.StringFen()); fl != "-" && perFile[fl] < 2+n/80 {
						perFile[fl]++
						mv := append(append([]Move{}, g.Moves...), m)
						cands = append(cands, GamePos{Root: g.Root, Moves: mv, P: &q})
						break
					}
				}
			}
		})
		for _, c := range cands {
			// first search: the position BEFORE the double step (the en-passant position is a node of the tree and
			// gets a hash entry); second search: the same position with that pawn one square ahead, from which the
			// single step reaches the same placement without the en-passant right
			m := c.Moves[len(c.Moves)-1]
			before, _ := position.NewPositionFen(c.Root)
			for _, x := range c.Moves[:len(c.Moves)-1] {
				before.DoMove(x)
			}
			mid := Square((int(m.From()) + int(m.To())) / 2)
			bf := strings.Fields(before.StringFen())
			board := expandFenBoard(bf[0])
			pc := board[m.From()]
			board[m.From()], board[mid] = ' ', pc
			bf[0] = compressFenBoard(board)
			bf[3] = "-"
			tf := strings.Join(bf, " ")
			tp, err := position.NewPositionFen(tf)
			if err != nil || tp == nil || tp.IsAttacked(tp.KingSquare(tp.NextPlayer().Flip()), tp.NextPlayer()) {
				continue
			}
			twin[len(positions)] = 1
			positions = append(positions, GamePos{Root: c.Root, Moves: c.Moves[:len(c.Moves)-1], P: before})
			twin[len(positions)] = 2
			positions = append(positions, GamePos{Root: tf, P: tp})
			rep.Stats["twin_pairs_en_passant_file_"+f3file(c.P.StringFen())]++
		}
	}
	var s *search.Search
	var d *captureDriver
	for i, g := range positions {
		// replay to get the history (repetitions) without legality probing
		p, _ := position.NewPositionFen(g.Root)
		for _, m := range g.Moves {
			p.DoMove(m)
		}
		legal := w.legalMoves(p)
		if len(legal) == 0 {
			continue
		}
		if s == nil || (rng.Chance(25) && twin[i] != 2) || twin[i] == 1 { // mostly keep the search object: hash and history are shared between searches
			s = search.NewSearch()
		}
		d = &captureDriver{}
		s.SetUciHandler(d)
		cfgs := randomFeatureSwitches(rng)
		sl := search.NewSearchLimits()
		mode := ""
		stopAfter := time.Duration(-1)
		ponderhit := false
		switch r := rng.Intn(10); {
		case r < 3:
			sl.Depth = 1 + rng.Intn(5)
			mode = fmt.Sprintf("depth %d", sl.Depth)
		case r < 5:
			sl.Nodes = uint64(1 + rng.Intn(30000))
			if rng.Chance(50) { // a stop during the very first iteration
				sl.Nodes = uint64(1 + rng.Intn(60))
			}
			mode = fmt.Sprintf("nodes %d", sl.Nodes)
		case r < 6:
			sl.TimeControl = true
			sl.MoveTime = time.Duration(1+rng.Intn(120)) * time.Millisecond
			mode = fmt.Sprintf("movetime %s", sl.MoveTime)
		case r < 7:
			sl.TimeControl = true
			sl.WhiteTime = time.Duration(50+rng.Intn(3000)) * time.Millisecond
			sl.BlackTime = sl.WhiteTime
			sl.WhiteInc = time.Duration(rng.Intn(50)) * time.Millisecond
			sl.BlackInc = sl.WhiteInc
			sl.MovesToGo = rng.Intn(40)
			mode = fmt.Sprintf("clock %s inc %s mtg %d", sl.WhiteTime, sl.WhiteInc, sl.MovesToGo)
		case r < 9:
			sl.Infinite = true
			stopAfter = time.Duration(rng.Intn(40000)) * time.Microsecond
			mode = fmt.Sprintf("infinite stop after %s", stopAfter)
		default:
			sl.Ponder = true
			sl.TimeControl = true
			sl.WhiteTime = 300 * time.Millisecond
			sl.BlackTime = 300 * time.Millisecond
			ponderhit = rng.Bool()
			stopAfter = time.Duration(rng.Intn(30000)) * time.Microsecond
			mode = fmt.Sprintf("ponder ponderhit=%v after %s", ponderhit, stopAfter)
		}
		if sw, ok := forceCfg[i]; ok {
			cfgs = singleSwitchOff(sw)
			*sl = *search.NewSearchLimits()
			sl.Nodes = wideNodes[i]
			stopAfter, ponderhit = -1, false
			mode = fmt.Sprintf("nodes %d", sl.Nodes)
			s.NewGame()
		}
		if fn, ok := forceNodes[i]; ok {
			if fn%5 != 0 { // mostly a cold hash table: continuations come from the search, not from hash cuts
				s.NewGame()
			}
			if fn%8 != 0 { // mostly the default configuration
				restoreDefaults()
				config.Settings.Search.TTSize = 2
				cfgs = "default"
			}
			*sl = *search.NewSearchLimits()
			sl.Nodes = fn
			stopAfter, ponderhit = -1, false
			mode = fmt.Sprintf("nodes %d", fn)
		}
		if tw := twin[i]; tw > 0 {
			restoreDefaults()
			config.Settings.Search.UseBook = false
			config.Settings.Search.TTSize = 2
			cfgs = "default"
			*sl = *search.NewSearchLimits()
			sl.Depth = 5 + rng.Intn(2)
			stopAfter, ponderhit = -1, false
			mode = fmt.Sprintf("depth %d (twin %d of a pair, same engine)", sl.Depth, tw)
		}
		in := map[string]interface{}{"root": g.Root, "moves": movesUci(g.Moves), "fen": p.StringFen(), "limits": mode, "config": cfgs, "search_index": i}
		setCurrent(in)
		fenBefore, keyBefore := p.StringFen(), p.ZobristKey()
		if os.Getenv("VERIF_TRACE") != "" {
			fmt.Fprintf(os.Stderr, "TRACE search %d: %s | %s | moves %s | %s\n", i, g.Root, mode, movesUci(g.Moves), cfgs)
		}
		done := make(chan struct{})
		go func() {
			s.StartSearch(*p, *sl)
			if stopAfter >= 0 {
				time.Sleep(stopAfter)
				if ponderhit {
					s.PonderHit()
				} else {
					s.StopSearch()
				}
			}
			s.WaitWhileSearching()
			close(done)
		}()
		rep.Cases++
		select {
		case <-done:
		case <-time.After(30 * time.Second):
			// a depth- or node-limited search has no time bound (without stand-pat the quiescence search of
			// a rich position can take minutes on a loaded machine): it must end once it is told to stop;
			// searches that were given a time limit or a stop should have ended long ago
			timed := sl.TimeControl || stopAfter >= 0
			stopped := make(chan struct{})
			go func() { s.StopSearch(); close(stopped) }()
			ended := false
			select {
			case <-done:
				ended = true
			case <-time.After(30 * time.Second):
			}
			if timed || !ended {
				rep.Violate("search-does-not-terminate", in, fmt.Sprintf("no result 30 s after the limit/stop; ended after an explicit stop: %v", ended))
			} else {
				rep.Stats["slow_untimed_searches_stopped"]++
			}
			if !ended {
				// the engine is still searching with the global configuration: nothing more can be run safely in this process
				return rep.Emit()
			}
			<-stopped
			continue
		}
		rep.Stats["mode_"+mode[:4]]++
		if p.StringFen() != fenBefore || p.ZobristKey() != keyBefore {
			rep.Violate("caller-position-changed", in, "position after the search: "+p.StringFen())
		}
		if d.waitResults(1) != 1 {
			rep.Violate("not-exactly-one-result", in, fmt.Sprintf("%d results", d.nResults()))
			continue
		}
		r := s.LastSearchResult()
		best := d.results[0][0]
		if !mg.ValidateMove(p, best.MoveOf()) {
			rep.Violate("best-move-not-legal", in, "bestmove "+best.StringUci())
			continue
		}
		if pm := d.results[0][1]; pm != MoveNone {
			q := *p
			q.DoMove(best.MoveOf())
			if !mg.ValidateMove(&q, pm.MoveOf()) {
				rep.Violate("ponder-move-not-legal", in, "bestmove "+best.StringUci()+" ponder "+pm.StringUci())
			}
			rep.Stats["ponder_moves"]++
		}
		if len(r.Pv) > 0 {
			if r.Pv[0].MoveOf() != best.MoveOf() {
				rep.Violate("pv-does-not-start-with-best-move", in, "pv "+r.Pv.StringUci()+" bestmove "+best.StringUci())
			}
			pv := make([]Move, len(r.Pv))
			copy(pv, r.Pv)
			if ok, at := playable(mg, p, pv); !ok {
				rep.Violate("final-pv-not-playable", in, fmt.Sprintf("pv %s fails at index %d", r.Pv.StringUci(), at))
			}
		}
		for k, pv := range d.iterPvs {
			rep.Stats["iteration_pvs"]++
			if ok, at := playable(mg, p, pv); !ok {
				rep.Violate("iteration-pv-not-playable", in, fmt.Sprintf("info depth %d pv %s fails at index %d", d.iterDepth[k], movesUci(pv), at))
				break
			}
		}
		rep.Distinct++
		rep.Sample(map[string]interface{}{"fen": fenBefore, "limits": mode, "bestmove": best.StringUci(), "pv": r.Pv.StringUci()})
	}
	return rep.Emit()
}

// c07-monitor <n> <seed>: every node the search classifies as mate/stalemate really has no legal
// move (hook in alphabeta.go), under the default configuration and random pruning switches;
// terminal roots are reported as -mate / draw.
// expandFenBoard / compressFenBoard: the placement field of a FEN as 64 bytes indexed by square (a1 = 0)
func expandFenBoard(pl string) [64]byte {
	var b [64]byte
	for i := range b {
		b[i] = ' '
	}
	r, f := 7, 0
	for _, c := range pl {
		switch {
		case c == '/':
			r, f = r-1, 0
		case c >= '1' && c <= '8':
			f += int(c - '0')
		default:
			if r >= 0 && f < 8 {
				b[r*8+f] = byte(c)
			}
			f++
		}
	}
	return b
}

func compressFenBoard(b [64]byte) string {
	var sb strings.Builder
	for r := 7; r >= 0; r-- {
		e := 0
		for f := 0; f < 8; f++ {
			if c := b[r*8+f]; c != ' ' {
				if e > 0 {
					sb.WriteString(strconv.Itoa(e))
					e = 0
				}
				sb.WriteByte(c)
			} else {
				e++
			}
		}
		if e > 0 {
			sb.WriteString(strconv.Itoa(e))
		}
		if r > 0 {
			sb.WriteByte('/')
		}
	}
	return sb.String()
}

func f3file(fen string) string {
	f := strings.Fields(fen)
	if len(f) > 3 && len(f[3]) > 0 {
		return f[3][:1]
	}
	return "-"
}

func c07Monitor(args []string) int {
	n, _ := strconv.Atoi(args[0])
	seed, _ := strconv.ParseUint(args[1], 10, 64)
	rng := NewRng(seed)
	w := NewWalker(rng)
	rep := NewReport("c07-monitor")
	defer restoreDefaults()
	hookMg := movegen.NewMoveGen()
	var current map[string]interface{}
	classified := 0
	search.VerifTerminalHook = func(p *position.Position, kind int, ply int) {
		classified++
		fresh, err := position.NewPositionFen(p.StringFen())
		if err != nil || fresh == nil {
			return
		}
		legal := hookMg.GenerateLegalMoves(fresh, movegen.GenAll).Len()
		inCheck := fresh.HasCheck()
		if legal != 0 || (kind == 1) != inCheck {
			in := map[string]interface{}{}
			for k, v := range current {
				in[k] = v
			}
			in["node"] = p.StringFen()
			in["classified_as"] = map[int]string{1: "checkmate", 2: "stalemate"}[kind]
			rep.Violate("terminal-score-with-legal-moves", in, fmt.Sprintf("node has %d legal moves, in check: %v", legal, inCheck))
		}
	}
	defer func() { search.VerifTerminalHook = nil }()
	// every move the tree search makes and counts as searched must be a legal move of the node (the loops rely
	// on the legality filter after DoMove): checked at every node in check and at a sample of the others
	legalMg := movegen.NewMoveGen()
	counted, countedChecked := 0, 0
	search.VerifLoopHook = func(fn int, p *position.Position, ply int, ev int, a int, b int) {
		if ev != 4 || a == 0 {
			return
		}
		counted++
		if !p.HasCheck() && counted%16 != 0 {
			return
		}
		countedChecked++
		fresh, err := position.NewPositionFen(p.StringFen())
		if err != nil || fresh == nil {
			return
		}
		mv := Move(a).MoveOf()
		ok := false
		for _, lm := range *legalMg.GenerateLegalMoves(fresh, movegen.GenAll) {
			if lm.MoveOf() == mv {
				ok = true
				break
			}
		}
		if !ok {
			in := map[string]interface{}{}
			for k, v := range current {
				in[k] = v
			}
			in["node"] = p.StringFen()
			in["move"] = mv.StringUci()
			in["in"] = map[int]string{0: "search", 1: "qsearch"}[fn]
			rep.Violate("illegal-move-searched-in-tree", in, "the move loop made and counted "+mv.StringUci()+", which is not a legal move of the node")
		}
	}
	defer func() { search.VerifLoopHook = nil }()
	var positions []GamePos
	w.Stream(n*8, true, func(g GamePos) {
		pieces := g.P.OccupiedAll().PopCount()
		// lost endgames with few pieces and only quiet moves are where all moves get futility pruned
		if len(positions) < n && ((pieces <= 8 && rng.Chance(40)) || rng.Chance(6)) {
			cp := *g.P
			positions = append(positions, GamePos{Root: g.Root, Moves: g.Moves, P: &cp})
		}
	})
	for _, fen := range []string{"7k/8/8/8/8/5p1p/5P1P/6BK w - - 0 1", "8/8/8/8/8/1k6/p7/K7 w - - 0 1", "k7/P7/K7/8/8/8/8/8 b - - 0 1",
		"R6k/8/7K/8/8/8/8/8 b - - 0 1", "7k/5Q2/6K1/8/8/8/8/8 b - - 0 1", "8/8/8/8/3k4/8/3q4/3K4 w - - 0 1", "8/8/8/2k5/8/1q6/8/K7 w - - 0 1",
		"8/P1k5/K7/8/8/8/8/8 b - - 0 1", "6k1/5ppp/8/8/8/8/q7/1K6 w - - 0 1",
		"8/8/R7/7k/7p/5N1K/1q4P1/8 w - - 0 1", "8/1Q4p1/5n1k/7P/7K/r7/8/8 b - - 0 1", "4k3/8/8/8/4p3/8/3P4/4K2R w K - 0 1" /* a double step checks; the en-passant capture of the checking pawn is a legal reply */} {
		p, _ := position.NewPositionFen(fen)
		positions = append(positions, GamePos{Root: fen, P: p})
		// a root without legal moves is classified by check alone - also when the fifty-move clock has run out
		// (mate on the 100th reversible half move is mate)
		if p != nil && len(w.legalMoves(p)) == 0 {
			for _, clk := range []string{"99", "100", "120"} {
				f := strings.Fields(fen)
				f[4] = clk
				cf := strings.Join(f, " ")
				if cp, _ := position.NewPositionFen(cf); cp != nil {
					positions = append(positions, GamePos{Root: cf, P: cp})
				}
			}
		}
	}
	for k := 0; k < 3; k++ { // a double step that gives check and can be taken en passant is one move away
		if fen := w.epCheckSkeleton(); fen != "" {
			if p, _ := position.NewPositionFen(fen); p != nil {
				positions = append(positions, GamePos{Root: fen, P: p})
			}
		}
	}
	// checks against a king with castling rights: default configuration, depth 3-5
	castleFrom := len(positions)
	positions = append(positions, w.checkVsCastlingRoots(3+n/10)...)
	for gi, g := range positions {
		p, _ := position.NewPositionFen(g.Root)
		for _, m := range g.Moves {
			p.DoMove(m)
		}
		s := &config.Settings.Search
		*s = savedSearchCfg
		s.UseBook = false
		s.TTSize = 2
		cfgName := "default"
		if rng.Chance(60) {
			for _, b := range []*bool{&s.UseFP, &s.UseLmp, &s.UseLmr, &s.UseNullMove, &s.UseRazoring, &s.UseRFP, &s.UseQFP, &s.UseTT, &s.UseQuiescence, &s.UseExt} {
				*b = rng.Bool()
			}
			cfgName = fmt.Sprintf("FP=%v LMP=%v LMR=%v NMP=%v RAZ=%v RFP=%v QFP=%v TT=%v QS=%v EXT=%v", s.UseFP, s.UseLmp, s.UseLmr, s.UseNullMove, s.UseRazoring, s.UseRFP, s.UseQFP, s.UseTT, s.UseQuiescence, s.UseExt)
		}
		depth := 2 + rng.Intn(5)
		if gi >= castleFrom {
			*s = savedSearchCfg
			s.UseBook = false
			s.TTSize = 2
			cfgName = "default"
			depth = 5 + rng.Intn(2)
			rep.Stats["roots_check_against_castling_rights"]++
		}
		current = map[string]interface{}{"root": g.Root, "moves": movesUci(g.Moves), "fen": p.StringFen(), "depth": depth, "config": cfgName}
		setCurrent(current)
		legal := w.legalMoves(p)
		r, _, ok := runDepthSearch(p, depth, 120*time.Second)
		rep.Cases++
		if !ok {
			rep.Violate("search-hang", current, "no result after 120 s and 30 s after an explicit stop")
			return rep.Emit()
		}
		if r == nil {
			rep.Stats["slow_searches_stopped"]++
			continue
		}
		if len(legal) == 0 {
			want := ValueDraw
			if p.HasCheck() {
				want = -ValueCheckMate
			}
			rep.Stats["terminal_roots"]++
			if r.BestValue != want || r.BestMove != MoveNone {
				rep.Violate("terminal-root-misreported", current, fmt.Sprintf("value %d bestmove %s, expected value %d and no move", r.BestValue, r.BestMove.StringUci(), want))
			}
		}
		rep.Distinct++
		rep.Sample(map[string]interface{}{"fen": p.StringFen(), "depth": depth, "config": cfgName})
	}
	// deep searches: the depth-indexed tables (late-move pruning thresholds, reductions) are read at depths
	// that ordinary test searches never reach; tiny endgames get there within a second
	deepRoots := []string{"8/8/8/4k3/8/8/4P3/4K3 w - - 0 1", "8/8/4k3/8/8/4K3/4P3/8 b - - 0 1", "8/5k2/8/8/8/2K5/1P6/8 w - - 0 1",
		"8/8/8/8/8/5k2/4p3/4K3 b - - 0 1", "4k3/8/8/3p4/3P4/8/8/4K3 w - - 0 1", "8/2k5/8/2p5/2P5/8/2K5/8 b - - 0 1", "8/8/8/1k6/8/8/1K1N4/8 w - - 0 1"}
	for i := 0; i < 2+n/40; i++ {
		fen := deepRoots[rng.Intn(len(deepRoots))]
		if rng.Bool() {
			fen = mirrorFen(fen)
		}
		p, _ := position.NewPositionFen(fen)
		if p == nil {
			continue
		}
		for k := rng.Intn(4); k > 0; k-- { // a few random plies away from the listed position
			cp := *p
			lm := w.legalMoves(&cp)
			if len(lm) == 0 {
				break
			}
			p.DoMove(lm[rng.Intn(len(lm))])
		}
		p, _ = position.NewPositionFen(p.StringFen())
		s := &config.Settings.Search
		*s = savedSearchCfg
		s.UseBook = false
		s.TTSize = 16
		depth := 17 + rng.Intn(16)
		current = map[string]interface{}{"fen": p.StringFen(), "depth": depth, "config": "default"}
		setCurrent(current)
		r, drv, ok := runDepthSearch(p, depth, 5*time.Second) // stopped after 5 s: the deep iterations have run by then
		rep.Cases++
		if !ok {
			rep.Violate("search-hang", current, "no result 30 s after an explicit stop")
			return rep.Emit()
		}
		rep.Stats["deep_searches"]++
		drv.mu.Lock()
		reached := len(drv.iterPvs)
		drv.mu.Unlock()
		if reached >= 17 {
			rep.Stats["deep_searches_beyond_depth_16"]++
		}
		if r == nil {
			continue
		}
		rep.Stats["deep_searches_completed"]++
	}
	rep.Stats["nodes_classified_terminal"] = classified
	rep.Stats["counted_moves_seen"] = counted
	rep.Stats["counted_moves_checked_legal"] = countedChecked
	return rep.Emit()
}

func init() {
	register("c05-monitor", c05Monitor)
	register("c07-monitor", c07Monitor)
}
