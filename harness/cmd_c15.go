package main

import (
	"fmt"
	"strconv"

	"github.com/frankkopp/FrankyGo/internal/config"
	"github.com/frankkopp/FrankyGo/internal/evaluator"
	"github.com/frankkopp/FrankyGo/internal/position"
	. "github.com/frankkopp/FrankyGo/internal/types"
)

// c15-monitor <n> <seed>: evaluation is pure (repeat, second evaluator, after do/undo, fresh from
// FEN), colour-symmetric (mirror) and 0 for insufficient material, under the 32 combinations of
// the five evaluation switches (evalSwitches in cmd_models.go: Eval_Lazy, Eval_AdvPiece,
// UseAttacksInEval, Eval_Mobility, UseKingEval; 0..3 are the combinations of the two options the
// property names, the others cover the branches that only a config file can switch on).
func c15Monitor(args []string) int {
	n, _ := strconv.Atoi(args[0])
	seed, _ := strconv.ParseUint(args[1], 10, 64)
	rng := NewRng(seed)
	w := NewWalker(rng)
	rep := NewReport("c15-monitor")
	savedEval := config.Settings.Eval
	defer func() { config.Settings.Eval = savedEval }()
	reused := evaluator.NewEvaluator()
	seen := map[uint64]bool{}
	w.Stream(n, true, func(g GamePos) {
		rep.Cases++
		if !seen[uint64(g.P.ZobristKey())] {
			seen[uint64(g.P.ZobristKey())] = true
			rep.Distinct++
		}
		// fresh copies so that the (known) game phase drift of a played position does not enter
		fen := g.P.StringFen()
		p, err := position.NewPositionFen(fen)
		if err != nil || p == nil {
			return
		}
		mfen := mirrorFen(fen)
		mp, err := position.NewPositionFen(mfen)
		if err != nil || mp == nil {
			rep.Violate("mirror-fen-rejected", map[string]interface{}{"fen": fen, "mirror": mfen}, "the mirrored position is not accepted")
			return
		}
		for opt := 0; opt < 32; opt++ {
			evalSwitches(opt)
			in := evalSwitchInput(fen, opt)
			rep.Stats["evaluations_compared"]++
			keyBefore, fenBefore := p.ZobristKey(), p.StringFen()
			v1 := reused.Evaluate(p)
			v2 := reused.Evaluate(p)
			v3 := evaluator.NewEvaluator().Evaluate(p)
			if v1 != v2 || v1 != v3 {
				rep.Violate("evaluation-not-pure", in, fmt.Sprintf("%d, repeated %d, fresh evaluator %d", v1, v2, v3))
			}
			if p.ZobristKey() != keyBefore || p.StringFen() != fenBefore {
				rep.Violate("evaluation-modifies-position", in, p.StringFen())
			}
			// evaluating other positions in between must not matter
			reused.Evaluate(mp)
			if v4 := reused.Evaluate(p); v4 != v1 {
				rep.Violate("evaluation-not-pure", in, fmt.Sprintf("%d, after evaluating another position %d", v1, v4))
			}
			vm := evaluator.NewEvaluator().Evaluate(mp)
			if vm != v1 {
				in2 := evalSwitchInput(fen, opt)
				in2["mirror"] = mfen
				rep.Violate("evaluation-not-colour-symmetric", in2, fmt.Sprintf("%d for the position, %d for its colour mirror (mover's view)", v1, vm))
			}
			if p.HasInsufficientMaterial() {
				rep.Stats["insufficient_material_positions"]++
				if v1 != ValueDraw {
					rep.Violate("dead-material-not-zero", in, fmt.Sprintf("value %d", v1))
				}
			}
			// history independence: a do/undo excursion on a separate copy
			if opt == 0 && g.P.OccupiedAll().PopCount() <= 20 {
				p2, _ := position.NewPositionFen(fen)
				moves := w.legalMoves(p2)
				for k := 0; k < 3 && k < len(moves); k++ {
					m := moves[rng.Intn(len(moves))]
					p2.DoMove(m)
					reused.Evaluate(p2)
					p2.UndoMove()
				}
				if v5 := reused.Evaluate(p2); v5 != v1 {
					in3 := map[string]interface{}{"fen": fen, "phase_clamp_reachable": phaseClampReachable(p)}
					rep.Violate("evaluation-depends-on-history", in3, fmt.Sprintf("%d before, %d after do/undo excursions", v1, v5))
				}
			}
		}
		rep.Sample(map[string]interface{}{"fen": fen, "mirror": mfen})
	})
	// positions reached through a history with repetitions (both sides shuffle a piece out and back once or twice):
	// the value on the played position object is the value of the same position set up from its FEN
	evalSwitches(0)
	for k := 0; k < 6+n/400; k++ {
		g, ok := w.shuffleGame()
		if !ok {
			continue
		}
		// replay without legality probing on the object under test
		p, _ := position.NewPositionFen(g.Root)
		if p == nil {
			continue
		}
		for i, m := range g.Moves {
			p.DoMove(m)
			fr, _ := position.NewPositionFen(p.StringFen())
			if fr == nil {
				break
			}
			rep.Cases++
			rep.Stats["evaluations_behind_a_shuffle_history"]++
			if p.CheckRepetitions(1) {
				rep.Stats["evaluations_of_repeated_positions"]++
			}
			a, b := reused.Evaluate(p), evaluator.NewEvaluator().Evaluate(fr)
			if a != b {
				rep.Violate("evaluation-depends-on-history", map[string]interface{}{"root": g.Root, "moves": movesUci(g.Moves[:i+1]), "fen": p.StringFen(), "phase_clamp_reachable": phaseClampReachable(p) || p.GamePhase() != fr.GamePhase()},
					fmt.Sprintf("%d on the position reached by play, %d on the same position set up from its FEN", a, b))
				break
			}
		}
	}
	return rep.Emit()
}

func init() { register("c15-monitor", c15Monitor) }
