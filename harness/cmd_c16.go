package main

import (
	"fmt"
	"os"
	"runtime/debug"
	"strconv"
	"strings"
	"time"

	"github.com/frankkopp/FrankyGo/internal/position"
	"github.com/frankkopp/FrankyGo/internal/uci"
)

func mutate(rng *Rng, s string) string {
	b := []byte(s)
	alphabet := "0123456789/pnbrqkPNBRQKwb- abcdefgh+xX|\t\xff\xc3\x28"
	for k := 1 + rng.Intn(3); k > 0; k-- {
		if len(b) == 0 {
			b = append(b, alphabet[rng.Intn(len(alphabet))])
			continue
		}
		i := rng.Intn(len(b))
		switch rng.Intn(8) {
		case 6: // change the case of one letter
			if b[i] >= 'a' && b[i] <= 'z' {
				b[i] -= 32
			} else if b[i] >= 'A' && b[i] <= 'Z' {
				b[i] += 32
			}
		case 7: // change the case of the whole word around i
			lo, hi := i, i
			for lo > 0 && b[lo-1] != ' ' {
				lo--
			}
			for hi < len(b) && b[hi] != ' ' {
				hi++
			}
			up := rng.Bool()
			for k := lo; k < hi; k++ {
				if up && b[k] >= 'a' && b[k] <= 'z' {
					b[k] -= 32
					if !rng.Chance(70) {
						break // only the initial: Depth, Movetime
					}
				} else if !up && b[k] >= 'A' && b[k] <= 'Z' {
					b[k] += 32
				}
			}
		case 0:
			b[i] = alphabet[rng.Intn(len(alphabet))]
		case 1:
			b = append(b[:i], b[i+1:]...)
		case 2:
			b = append(b[:i], append([]byte{alphabet[rng.Intn(len(alphabet))]}, b[i:]...)...)
		case 3:
			b = b[:i]
		case 4:
			j := rng.Intn(len(b))
			b[i], b[j] = b[j], b[i]
		default:
			b = append(b[:i], append([]byte(string(b[i])+string(b[i])), b[i+1:]...)...)
		}
	}
	return string(b)
}

func tryFen(fen string) (res string, out string, panicked bool) {
	defer func() {
		if r := recover(); r != nil {
			panicked = true
			out = fmt.Sprint(r)
		}
	}()
	p, err := position.NewPositionFen(fen)
	if err != nil || p == nil {
		return "error", "", false
	}
	return "ok", p.StringFen(), false
}

// c16-fen <n> <seed>: NewPositionFen on valid and malformed strings never panics; an accepted
// string yields a position whose own FEN is accepted again and reproduces itself.
func c16Fen(args []string) int {
	n, _ := strconv.Atoi(args[0])
	seed, _ := strconv.ParseUint(args[1], 10, 64)
	rng := NewRng(seed)
	w := NewWalker(rng)
	rep := NewReport("c16-fen")
	inputs, valid := fenInputs(rng, w, n)
	seen := map[string]bool{}
	for _, in := range inputs {
		rep.Cases++
		if !seen[in] {
			seen[in] = true
			rep.Distinct++
		}
		res, out, pan := tryFen(in)
		if pan {
			rep.Violate("fen-panic", map[string]interface{}{"fen": in}, out)
			continue
		}
		rep.Stats["fen_"+res]++
		if res == "ok" {
			res2, out2, pan2 := tryFen(out)
			if pan2 || res2 != "ok" || out2 != out {
				rep.Violate("fen-does-not-reparse", map[string]interface{}{"fen": in}, fmt.Sprintf("own FEN %q -> %s %q", out, res2, out2))
			}
		}
	}
	rep.Sample(map[string]interface{}{"malformed_example": inputs[3], "valid_example": valid[0]})
	return rep.Emit()
}

func fenInputs(rng *Rng, w *Walker, n int) ([]string, []string) {
	var valid []string
	w.Stream(n/4+100, true, func(g GamePos) { valid = append(valid, g.P.StringFen()) })
	var inputs []string
	// structural families
	base := "rnbqkbnr/pppppppp/8/8/8/8/PPPPPPPP/RNBQKBNR w KQkq - 0 1"
	ranks := strings.Split(strings.Fields(base)[0], "/")
	for r := 0; r < 8; r++ {
		for _, repl := range []string{"9", "0", "88", "8p", "p8", "ppppppppp", "7", "44p", "p", "", "1p1p1p1p1", "k7", "K7", "8/8"} {
			rr := append([]string{}, ranks...)
			rr[r] = repl
			inputs = append(inputs, strings.Join(rr, "/")+" w KQkq - 0 1")
		}
	}
	fields := strings.Fields(base)
	for i := 0; i <= 6; i++ {
		inputs = append(inputs, strings.Join(fields[:min(i, 6)], " "))
	}
	for f := 0; f < 8; f++ {
		for r := 1; r <= 8; r++ {
			sq := string(rune('a'+f)) + strconv.Itoa(r)
			inputs = append(inputs, "rnbqkbnr/pppppppp/8/8/4P3/8/PPPP1PPP/RNBQKBNR b KQkq "+sq+" 0 1")
			inputs = append(inputs, "rnbqkbnr/pppp1ppp/8/4p3/8/8/PPPPPPPP/RNBQKBNR w KQkq "+sq+" 0 1")
			inputs = append(inputs, "4k3/8/8/8/8/8/8/4K3 w - "+sq+" 0 1")
		}
	}
	for _, x := range []string{"i9", "e", "e33", "-", "--", "h0", "a9", "E3"} {
		inputs = append(inputs, "rnbqkbnr/pppppppp/8/8/4P3/8/PPPP1PPP/RNBQKBNR b KQkq "+x+" 0 1")
	}
	for _, x := range []string{"-5", "+5", "007", "99999999999999999999", "9223372036854775807", "4611686018427387904", "1e3", "0x10", "1_0", ""} {
		inputs = append(inputs, "4k3/8/8/8/8/8/8/4K3 w - - "+x+" 1", "4k3/8/8/8/8/8/8/4K3 w - - 0 "+x, "4k3/8/8/8/8/8/8/4K3 b - - 0 "+x)
	}
	inputs = append(inputs, "", " ", "  4k3/8/8/8/8/8/8/4K3  w  -  -  0  1 ", "4k3/8/8/8/8/8/8/4K3 | - - 0 1", "4k3/8/8/8/8/8/8/4K3 w KQkq - 0 1",
		"4k3/8/8/8/8/8/8/4K3 w qkQK - 0 1", "8/8/8/8/8/8/8/8 w - - 0 1", "kk6/8/8/8/8/8/8/KK6 w - - 0 1", "4k3/8/8/8/8/8/3p4/R3K3 b - - 0 1",
		"1n2k3/8/8/8/8/8/8/4RK2 w - - 0 1", "xyz", "pp/77p7////8", "4k3/8/8/8/8/8/8/4K3\tw - - 0 1", "4k3/8/8/8/8/8/8/4K3 w - - 0 1 extra fields here")
	for len(inputs) < n {
		v := valid[rng.Intn(len(valid))]
		switch rng.Intn(5) {
		case 0:
			inputs = append(inputs, v)
		case 1:
			inputs = append(inputs, mirrorFen(v))
		default:
			inputs = append(inputs, mutate(rng, v))
		}
	}
	return inputs, valid
}

func uciCommand(u *uci.UciHandler, line string) (out string, panicked bool, hung bool) {
	done := make(chan struct{})
	go func() {
		defer func() {
			if r := recover(); r != nil {
				panicked = true
				st := string(debug.Stack())
				var frames []string
				for _, l := range strings.Split(st, "\n") {
					if strings.Contains(l, "/internal/") && strings.Contains(l, ".go:") {
						frames = append(frames, strings.TrimSpace(l))
					}
				}
				if len(frames) > 6 {
					frames = frames[:6]
				}
				out = fmt.Sprint(r) + " at " + strings.Join(frames, " <- ")
			}
			close(done)
		}()
		out = u.Command(line)
	}()
	select {
	case <-done:
	case <-time.After(20 * time.Second):
		return "", false, true
	}
	return
}

// c16-uci <n> <seed>: every command line (valid templates, all their token prefixes, mutated
// lines) is survived: no panic, isready still answered, a valid position is still held.
func c16Uci(args []string) int {
	n, _ := strconv.Atoi(args[0])
	seed, _ := strconv.ParseUint(args[1], 10, 64)
	rng := NewRng(seed)
	rep := NewReport("c16-uci")
	defer restoreDefaults()
	templates := []string{
		"uci", "isready", "ucinewgame", "stop", "ponderhit", "debug on", "register later", "noop", "xyzzy",
		"position startpos", "position startpos moves e2e4 e7e5 g1f3", "position fen rnbqkbnr/pppppppp/8/8/8/8/PPPPPPPP/RNBQKBNR w KQkq - 0 1 moves e2e4",
		"position fen 8/P1k5/K7/8/8/8/8/8 w - - 0 1 moves a7a8q", "position fen xyz", "position fen", "position", "position startpos moves e2e5",
		"position startpos moves", "position startpos e2e4", "position fen 1n2k3/8/8/8/8/8/8/4RK2 w - - 0 1 moves e1e8 b8a6",
		"position fen 4k3/8/8/8/8/8/8/4K3 w - e6 0 1 moves e1e2",
		"go depth 1", "go depth", "go nodes 100", "go nodes", "go mate 1", "go mate", "go movetime 10", "go movetime", "go wtime 100 btime 100",
		"go wtime", "go btime 100", "go winc 10", "go winc", "go binc", "go movestogo 5 wtime 100 btime 100", "go movestogo", "go", "go infinite",
		"go ponder wtime 100 btime 100", "go depth x", "go nodes -5", "go depth -1", "go depth 99999999999999999999", "go searchmoves e2e4 depth 1",
		"go searchmoves", "go searchmoves e2e5 depth 1", "go moves e2e4 depth 1", "go wtime 0 btime 0", "go depth 1 depth 2",
		"setoption name Hash value 2", "setoption name Hash value -5", "setoption name Hash value abc", "setoption name Hash", "setoption name",
		"setoption", "setoption value 3", "setoption name Use_Hash value false", "setoption name Use_Hash value maybe", "setoption name Nonexistent value 1",
		"setoption name Clear Hash", "setoption name Print Config", "setoption name Ponder value true", "setoption name Use_Book value false",
		"perft 1", "perft", "perft x", "perft 1 2", "perft 600", "perft 1322", "perft 3 2000", "perft 129", "perft 2 130", "perft -5",
	}
	var lines []string
	for _, t := range templates {
		toks := strings.Fields(t)
		for k := 1; k <= len(toks); k++ {
			lines = append(lines, strings.Join(toks[:k], " "))
		}
	}
	lines = append(lines, "", " ", "\t", "  isready", "isready  ", "go\tdepth\t1", strings.Repeat("position startpos moves e2e4 ", 3))
	// a very long game (more plies than the history capacity)
	{
		var sb strings.Builder
		sb.WriteString("position startpos moves")
		for i := 0; i < 300; i++ {
			sb.WriteString(" g1f3 g8f6 f3g1 f6g8")
		}
		lines = append(lines, sb.String(), "go depth 2")
	}
	for len(lines) < n {
		lines = append(lines, mutate(rng, templates[rng.Intn(len(templates))]))
	}
	u := uci.NewUciHandler()
	uciCommand(u, "setoption name Use_Book value false")
	uciCommand(u, "setoption name Hash value 2")
	var recent []string
	seen := map[string]bool{}
	for _, line := range lines {
		if strings.HasPrefix(strings.TrimSpace(line), "quit") {
			continue
		}
		// keep searches short: a go command is followed by stop
		rep.Cases++
		if !seen[line] {
			seen[line] = true
			rep.Distinct++
		}
		recent = append(recent, line)
		if len(recent) > 6 {
			recent = recent[1:]
		}
		in := map[string]interface{}{"line": line, "preceding": strings.Join(recent[:len(recent)-1], " ; ")}
		setCurrent(in) // a panic in the search goroutine a go command starts cannot be recovered here: the driver reports this input
		if strings.Contains(line, "Hash value") {
			// keep allocations small: values above 64 MB are not sent to the real engine
			f := strings.Fields(line)
			if v, err := strconv.Atoi(f[len(f)-1]); err == nil && v > 64 {
				continue
			}
		}
		pout, pan, hung := uciCommand(u, line)
		if pan {
			rep.Violate("uci-panic", in, "panic while handling the line: "+pout)
			u = uci.NewUciHandler()
			continue
		}
		if hung {
			rep.Violate("uci-unresponsive", in, "the command did not return within 20 s")
			u = uci.NewUciHandler()
			continue
		}
		if strings.HasPrefix(strings.TrimSpace(line), "go") || strings.HasPrefix(strings.TrimSpace(line), "perft") {
			// the engine stays responsive while the search (or perft) the line started is running
			if out, pan, hung := uciCommand(u, "isready"); pan || hung || !strings.Contains(out, "readyok") {
				rep.Violate("isready-not-answered", in, fmt.Sprintf("isready sent while the command was still being carried out: panic=%v hung=%v output=%q", pan, hung, out))
				u = uci.NewUciHandler()
				continue
			}
			uciCommand(u, "stop")
			u.VerifSearch().WaitWhileSearching()
		}
		out, pan, hung := uciCommand(u, "isready")
		if pan || hung || !strings.Contains(out, "readyok") {
			rep.Violate("isready-not-answered", in, fmt.Sprintf("panic=%v hung=%v output=%q", pan, hung, out))
			u = uci.NewUciHandler()
			continue
		}
		fen := u.VerifPositionFen()
		if res, _, pan := tryFen(fen); pan || res != "ok" {
			rep.Violate("no-valid-position-held", in, "position after the line: "+fen)
			u = uci.NewUciHandler()
		}
	}
	rep.Sample(map[string]interface{}{"lines": lines[:5]})
	return rep.Emit()
}

func init() {
	register("c16-fen", c16Fen)
	register("c16-uci", c16Uci)
}

// c16-cases <n> <seed> <out.v>: NewPositionFen observations (accept/reject and the printed FEN) for
// the Coq model FenImpl.setup.
func c16Cases(args []string) int {
	n, _ := strconv.Atoi(args[0])
	seed, _ := strconv.ParseUint(args[1], 10, 64)
	rng := NewRng(seed)
	w := NewWalker(rng)
	f, err := os.Create(args[2])
	if err != nil {
		die(err)
	}
	defer f.Close()
	var sb strings.Builder
	rep := NewReport("c16-cases")
	inputs, _ := fenInputs(rng, w, 4000)
	sb.WriteString("(* GENERATED by verifh c16-cases *)\nFrom Coq Require Import NArith List Bool String.\nFrom FG Require Import CasesFen.\nImport ListNotations.\nOpen Scope string_scope.\nOpen Scope N_scope.\n")
	sb.WriteString("Definition cases : list (list N * N * string) := [\n")
	first := true
	for k := 0; k < n; k++ {
		in := inputs[rng.Intn(len(inputs))]
		if k < 40 {
			in = inputs[(k*37)%len(inputs)]
		}
		res, out, pan := tryFen(in)
		if pan {
			rep.Violate("fen-panic", map[string]interface{}{"fen": in}, out)
			continue
		}
		if !first {
			sb.WriteString(";\n")
		}
		first = false
		sb.WriteString("([")
		for i := 0; i < len(in); i++ {
			if i > 0 {
				sb.WriteString(";")
			}
			sb.WriteString(strconv.Itoa(int(in[i])))
		}
		obs := 0
		if res == "ok" {
			obs = 1
		}
		fmt.Fprintf(&sb, "],%d,\"%s\")", obs, out)
		rep.Cases++
		rep.Stats["fen_"+res]++
	}
	sb.WriteString("].\nDefinition M := Eval vm_compute in (fen_mismatches cases).\nPrint M.\n")
	f.WriteString(sb.String())
	rep.Distinct = rep.Cases
	rep.Sample(map[string]interface{}{"example_input": inputs[5]})
	return rep.Emit()
}

func init() { register("c16-cases", c16Cases) }
