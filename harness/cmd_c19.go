package main

import (
	"bytes"
	"encoding/gob"
	"fmt"
	"io/ioutil"
	"os"
	"os/exec"
	"path/filepath"
	"runtime"
	"sort"
	"strconv"
	"strings"
	"time"

	"github.com/frankkopp/FrankyGo/internal/movegen"
	"github.com/frankkopp/FrankyGo/internal/openingbook"
	"github.com/frankkopp/FrankyGo/internal/position"
	. "github.com/frankkopp/FrankyGo/internal/types"
)

type bookGame struct {
	moves   []Move   // legal prefix
	uci     []string // tokens incl. a possible illegal tail
	san     []string
	illegal bool
}

// genBookGames: random games from the start position with shared openings (transpositions,
// duplicates), sometimes cut by an illegal move.
var bookThemes = []string{
	"e2e4 e7e5 g1f3 b8c6 f1b5 d7d6 e1g1 g8e7 d2d4 a7a6",                                                   // Ne7 with the c6 knight pinned
	"e2e4 a7a6 e4e5 d7d5 e5d6 e7d6 d2d4 c8g4 f2f3 g4h5 c1e3 b8c6 b1c3 d8d7 d1d2 e8c8 e1c1",                // en passant, O-O-O twice
	"a2a4 b7b5 a4b5 a7a6 b5a6 c8b7 a6b7 b8c6 b7a8n g8f6 a8c7 d8c7",                                        // capture promotion to a knight
	"h2h4 g7g5 h4g5 h7h6 g5h6 g8f6 h6h7 h8g8 h7h8q e7e6 g1f3 b8c6 e2e3 d7d6 f1e2 c8d7 e1g1",               // promotion without capture, O-O
	"a2a4 b7b5 a4b5 a7a6 b5a6 c8b7 a6b7 b8c6 b7a8q",                                                       // the game ends with a promotion
	"h2h4 g7g5 h4g5 h7h6 g5h6 g8f6 h6h7 h8g8 h7h8n",                                                       // ... with an under-promotion
	"g1f3 g8f6 b1c3 b8c6 c3b5 c6b4 b5d4 b4d5 d4b3 d5b6 f3d4 f6d5 d4f3 d5f6 b3d4 b6d5 d4b5",                // twin knights: file disambiguation
	"a2a4 h7h5 h2h4 a7a5 a1a3 h8h6 h1h3 a8a6 a3d3 h6d6 h3e3 a6b6 d3d4 d6d5 e3e4 b6b4 e4e5 d5d6 d4d5",      // twin rooks on files and ranks
	"f2f4 e7e5 f4e5 d7d6 e5d6 f8d6 g1h3 a7a6 e2e4 a6a5 f1e2 a5a4 h3g5 a4a3 g5f7 e8f7 e1g1 f7e8 d2d4 b8c6", // castling that gives check (O-O+)
}

var twinCounter int

func genBookGames(rng *Rng, n int) []bookGame {
	w := NewWalker(rng)
	var games []bookGame
	var lines [][]Move
	// theme games first: notation corner cases every book must get right (pinned twin piece
	// that makes a move only look ambiguous, en passant, both castlings, promotions with and
	// without capture, file/rank disambiguation)
	themeOff := rng.Intn(len(bookThemes)) // collections are small: start somewhere else in the list every time
	var themeLines []string
	if n >= 2 {
		// twin games: the same placement reached by a double step (en-passant capture possible) and by two single
		// steps (no such right): two positions, two book entries; the files rotate from collection to collection
		twinCounter++
		files := []int{twinCounter % 8}
		if n >= 4 {
			files = []int{twinCounter % 4, twinCounter%4 + 4}
		}
		for _, f := range files {
			g := f + 1
			if f == 7 {
				g = 6
			}
			tempo := "a7a6"
			if f <= 1 || g <= 1 {
				tempo = "h7h6"
			}
			fl, gl := string(rune('a'+f)), string(rune('a'+g))
			themeLines = append(themeLines,
				gl+"2"+gl+"4 "+tempo+" "+gl+"4"+gl+"5 "+fl+"7"+fl+"5 "+gl+"5"+fl+"6",
				gl+"2"+gl+"3 "+fl+"7"+fl+"6 "+gl+"3"+gl+"4 "+tempo+" "+gl+"4"+gl+"5 "+fl+"6"+fl+"5 g1f3")
		}
	}
	for ti := range bookThemes {
		themeLines = append(themeLines, bookThemes[(themeOff+ti)%len(bookThemes)])
	}
	for _, line := range themeLines {
		if len(games) >= n {
			break
		}
		p := position.NewPosition()
		var g bookGame
		for _, u := range strings.Fields(line) {
			legal := w.legalMoves(p)
			var m Move
			for _, x := range legal {
				if strings.EqualFold(x.StringUci(), u) {
					m = x
				}
			}
			if m == MoveNone {
				panic("bad theme line: " + line + " at " + u)
			}
			g.uci = append(g.uci, m.StringUci())
			g.san = append(g.san, sanOf(p, m, legal, false)+checkSuffix(p, m, w))
			p.DoMove(m)
			g.moves = append(g.moves, m)
		}
		games = append(games, g)
		lines = append(lines, g.moves)
	}
	for len(games) < n {
		p := position.NewPosition()
		var g bookGame
		// reuse a prefix of an earlier game (shared openings, duplicates)
		if len(lines) > 0 && rng.Chance(60) {
			prev := lines[rng.Intn(len(lines))]
			k := rng.Intn(len(prev) + 1)
			if rng.Chance(10) {
				k = len(prev)
			}
			for _, m := range prev[:k] {
				legal := w.legalMoves(p)
				g.uci = append(g.uci, m.StringUci())
				g.san = append(g.san, sanOf(p, m, legal, false)+checkSuffix(p, m, w))
				p.DoMove(m)
				g.moves = append(g.moves, m)
			}
		}
		plies := 4 + rng.Intn(36)
		if rng.Chance(10) { // a long game: with annotations its move text runs to several thousand bytes
			plies = 150 + rng.Intn(150)
		}
		for len(g.moves) < plies {
			legal := w.legalMoves(p)
			if len(legal) == 0 {
				break
			}
			if plies <= 40 && rng.Chance(4) && len(g.moves) > 2 { // an illegal move ends the usable part
				// an unreadable token ends the usable part; what follows would be playable had the token been a move
				var np []Move
				for _, x := range legal {
					if x.MoveType() == Normal {
						np = append(np, x)
					}
				}
				if len(np) > 0 && rng.Bool() {
					// a legal move with a stray promotion letter, then the game goes on as if it had been played
					x := np[rng.Intn(len(np))]
					letter := []string{"q", "n", "r", "b"}[rng.Intn(4)]
					g.uci = append(g.uci, x.StringUci()+letter)
					g.san = append(g.san, sanOf(p, x, legal, false)+"="+strings.ToUpper(letter))
					cp := *p
					cp.DoMove(x)
					for k := 0; k < 2; k++ {
						cl := w.legalMoves(&cp)
						if len(cl) == 0 {
							break
						}
						y := cl[rng.Intn(len(cl))]
						g.uci = append(g.uci, y.StringUci())
						g.san = append(g.san, sanOf(&cp, y, cl, false))
						cp.DoMove(y)
					}
				} else {
					g.uci = append(g.uci, "a1a1", "e2e4") // from == to: never a legal move (e1e8 can be one: Re1xe8)
					g.san = append(g.san, "Qxz9", "e4")
				}
				g.illegal = true
				break
			}
			m := legal[rng.Intn(len(legal))]
			if rng.Chance(50) { // transpositions: prefer a small set of developing moves
				for _, x := range legal {
					if p.GetPiece(x.From()).TypeOf() == Knight || x.To().RankOf() == Rank3 || x.To().RankOf() == Rank6 {
						if rng.Chance(30) {
							m = x
						}
					}
				}
			}
			g.uci = append(g.uci, m.StringUci())
			g.san = append(g.san, sanOf(p, m, legal, false)+checkSuffix(p, m, w))
			p.DoMove(m)
			g.moves = append(g.moves, m)
		}
		if len(g.moves) == 0 {
			continue
		}
		games = append(games, g)
		lines = append(lines, g.moves)
	}
	return games
}

func checkSuffix(p *position.Position, m Move, w *Walker) string {
	p.DoMove(m)
	defer p.UndoMove()
	if p.HasCheck() {
		if len(w.legalMoves(p)) == 0 {
			return "#"
		}
		return "+"
	}
	return ""
}

func renderSimple(games []bookGame, rng *Rng) string {
	var sb strings.Builder
	for _, g := range games {
		sep := " "
		if rng.Chance(40) {
			sep = ""
		}
		sb.WriteString(strings.ToLower(strings.Join(g.uci, sep)) + "\n")
	}
	return sb.String()
}

func sanLine(g bookGame, decorate func(i int) string) string {
	var sb strings.Builder
	for i, s := range g.san {
		if i%2 == 0 {
			fmt.Fprintf(&sb, "%d. ", i/2+1)
		}
		if decorate != nil && (i*7+len(g.san))%11 == 0 && !strings.ContainsAny(s, "z") { // a suffix annotation on the move itself (PGN import format)
			s += []string{"!", "?", "!!", "!?", "?!", "??"}[i%6]
		}
		sb.WriteString(s + " ")
		if decorate != nil {
			sb.WriteString(decorate(i))
		}
	}
	return strings.TrimSpace(sb.String())
}

func renderSan(games []bookGame) string {
	var sb strings.Builder
	for _, g := range games {
		sb.WriteString(sanLine(g, nil) + " 1/2-1/2\n")
	}
	return sb.String()
}

func renderPgn(games []bookGame, rng *Rng) string {
	var sb strings.Builder
	results := []string{"1-0", "0-1", "1/2-1/2", "*"}
	for gi, g := range games {
		res := results[rng.Intn(len(results))]
		fmt.Fprintf(&sb, "[Event \"Test %d\"]\n[Site \"?\"]\n[White \"A, B.\"]\n[Black \"C [D]\"]\n[Result \"%s\"]\n\n", gi, res)
		long := len(g.moves) > 100
		verbose := !long && rng.Chance(12)                              // long annotations and no line wrapping: one physical line of several thousand bytes
		clk := !verbose && (rng.Chance(25) || (long && rng.Chance(50))) // an export with a clock comment after every move: wrapped lines then often start with '[' and end with ']'
		pendingClose := false
		line := sanLine(g, func(i int) string {
			if clk {
				return fmt.Sprintf("{ [%%clk 0:%02d:%02d] } ", 2+i%3, 59-i%60)
			}
			if verbose {
				return "{ " + strings.Repeat("the position is about equal and both sides keep manoeuvring ", 1+rng.Intn(4)) + fmt.Sprintf("[%%eval 0.%02d] } ", i%100)
			}
			if pendingClose && rng.Chance(50) { // closes the parenthesis an earlier comment opened
				pendingClose = false
				return "{as the main line) here} "
			}
			switch rng.Intn(16) {
			case 0:
				return "{a comment} "
			case 1:
				return "$1 "
			case 2:
				return "(1. d4 d5 (1... Nf6 2. c4) 2. c4) "
			case 3:
				return "{ multi word comment with 1. e4 inside } "
			case 4: // inside a brace comment parentheses are plain text: balanced, ...
				return "{ a comment (with a remark in parentheses) } "
			case 5: // ... an enumeration label, ...
				return "{a) the main line} "
			case 6: // ... a label inside a variation, ...
				return "(1. d4 {b) the closed games} d5 2. c4) "
			case 7: // ... or opened in one comment and closed in a later one
				pendingClose = true
				return "{the old move (also known } "
			}
			return ""
		})
		// wrap lines
		words := strings.Fields(line)
		col := 0
		width := 70
		if rng.Chance(30) {
			width = 25 + rng.Intn(60)
		}
		if verbose || rng.Chance(15) || (long && rng.Chance(50)) { // no wrapping: the whole move text on one physical line
			width = 1 << 30
		}
		insideStyle := clk && width < 1000 && rng.Bool() // the exporter breaks lines inside the comments: before "[%clk" and after "...]"
		for wi, wd := range words {
			brk := col+len(wd) > width
			if insideStyle {
				brk = col > 0 && ((strings.HasPrefix(wd, "[%") && col > 20) || (wi > 0 && strings.HasSuffix(words[wi-1], "]") && col > 40))
			}
			if brk {
				sb.WriteString("\n")
				col = 0
			}
			sb.WriteString(wd + " ")
			col += len(wd) + 1
		}
		sb.WriteString(res + "\n\n")
	}
	return sb.String()
}

type bookSnapshot map[uint64]int // key -> counter

// bookKeyCollision is set by expectedBook when two different positions of the games (different placement, side,
// rights or en-passant field) carry the same key: the book would merge them into one entry
var bookKeyCollision string

func expectedBook(games []bookGame) bookSnapshot {
	exp := bookSnapshot{}
	cores := map[uint64]string{}
	bookKeyCollision = ""
	note := func(p *position.Position) {
		k := uint64(p.ZobristKey())
		exp[k]++
		c := strings.Join(strings.Fields(p.StringFen())[:4], " ")
		if o, ok := cores[k]; ok && o != c && bookKeyCollision == "" {
			bookKeyCollision = o + "  and  " + c
		}
		cores[k] = c
	}
	root := position.NewPosition()
	exp[uint64(root.ZobristKey())] = 0
	for _, g := range games {
		p := position.NewPosition()
		note(p)
		for _, m := range g.moves {
			p.DoMove(m)
			note(p)
		}
	}
	return exp
}

func buildBook(dir, file string, format openingbook.BookFormat, useCache bool) (*openingbook.Book, error, bool) {
	b := openingbook.NewBook()
	var err error
	done := make(chan struct{})
	go func() {
		err = b.Initialize(dir, file, format, useCache, false)
		close(done)
	}()
	select {
	case <-done:
		return b, err, false
	case <-time.After(30 * time.Second):
		return nil, nil, true
	}
}

// snapshotOf reads the book's entries under the book's own lock; a lock that an earlier
// operation never released makes this wait for ever: the run ends with that as the violation.
func snapshotOf(b *openingbook.Book) bookSnapshot {
	s := bookSnapshot{}
	done := make(chan struct{})
	go func() {
		for k, e := range b.VerifEntries() {
			s[k] = e.Counter
		}
		close(done)
	}()
	select {
	case <-done:
	case <-time.After(20 * time.Second):
		in := lastInput
		if in == nil {
			in = map[string]interface{}{}
		}
		lastReport.Violate("book-lock-never-released", in, "reading the book after Initialize returned did not finish within 20 s: the book's lock is still held by a finished operation")
		os.Exit(lastReport.Emit())
	}
	return s
}

func diffSnap(a, b bookSnapshot) string {
	var d []string
	for k, v := range a {
		if w, ok := b[k]; !ok {
			d = append(d, fmt.Sprintf("key %d missing", k))
		} else if w != v {
			d = append(d, fmt.Sprintf("key %d count %d vs %d", k, v, w))
		}
	}
	for k := range b {
		if _, ok := a[k]; !ok {
			d = append(d, fmt.Sprintf("key %d extra", k))
		}
	}
	sort.Strings(d)
	if len(d) > 6 {
		d = append(d[:6], fmt.Sprintf("... %d differences", len(d)))
	}
	return strings.Join(d, "; ")
}

// c19-monitor <collections> <seed>: books built from the same games in the three formats, under
// several GOMAXPROCS settings and repeated builds, equal the expected positions/visit counts;
// every offered move is legal, leads to the linked entry and is offered once.
func c19Monitor(args []string) int {
	n, _ := strconv.Atoi(args[0])
	seed, _ := strconv.ParseUint(args[1], 10, 64)
	rng := NewRng(seed)
	rep := NewReport("c19-monitor")
	dir, _ := ioutil.TempDir("", "verifbook")
	defer os.RemoveAll(dir)
	defer runtime.GOMAXPROCS(runtime.GOMAXPROCS(0))
	mg := movegen.NewMoveGen()
	for c := 0; c < n; c++ {
		games := genBookGames(rng, 3+rng.Intn(40))
		exp := expectedBook(games)
		if bookKeyCollision != "" {
			var gl []string
			for _, g := range games {
				gl = append(gl, strings.Join(g.uci, " "))
			}
			rep.Violate("book-positions-or-counts-differ", map[string]interface{}{"collection": c, "seed": seed, "games": gl},
				"two different positions of the games carry one key and would share one book entry: "+bookKeyCollision)
		}
		files := map[string]string{"simple.txt": renderSimple(games, rng), "san.txt": renderSan(games), "games.pgn": renderPgn(games, rng)}
		formats := map[string]openingbook.BookFormat{"simple.txt": openingbook.Simple, "san.txt": openingbook.San, "games.pgn": openingbook.Pgn}
		for f, content := range files {
			ioutil.WriteFile(filepath.Join(dir, f), []byte(content), 0644)
		}
		nIllegal := 0
		for _, g := range games {
			if g.illegal {
				nIllegal++
			}
		}
		rep.Stats["games"] += len(games)
		rep.Stats["games_with_illegal_move"] += nIllegal
		for _, f := range []string{"simple.txt", "san.txt", "games.pgn"} {
			for _, procs := range []int{1, 2, 16} {
				runtime.GOMAXPROCS(procs)
				b, err, hung := buildBook(dir, f, formats[f], false)
				rep.Cases++
				in := map[string]interface{}{"format": f, "gomaxprocs": procs, "games": len(games), "collection": c, "seed": seed, "file": files[f][:min(len(files[f]), 1500)]}
				if hung {
					rep.Violate("book-build-hangs", in, "Initialize did not return within 30 s")
					continue
				}
				if err != nil {
					rep.Violate("book-build-error", in, err.Error())
					continue
				}
				got := snapshotOf(b)
				if d := diffSnap(exp, got); d != "" {
					rep.Violate("book-positions-or-counts-differ", in, "expected vs built: "+d)
					continue
				}
				// edges
				targets := map[uint64]int{}
				for k, e := range b.VerifEntries() {
					seenMove := map[uint32]bool{}
					for _, s := range e.Moves {
						if seenMove[s.Move] {
							rep.Violate("book-move-offered-twice", in, fmt.Sprintf("entry %d move %s", k, Move(s.Move).StringUci()))
						}
						seenMove[s.Move] = true
						targets[s.NextEntry]++
						if _, ok := got[s.NextEntry]; !ok {
							rep.Violate("book-edge-to-unknown-entry", in, fmt.Sprintf("entry %d move %s", k, Move(s.Move).StringUci()))
						}
					}
				}
				// legality of offered moves: replay the games and check every edge met on the way
				for _, g := range games {
					p := position.NewPosition()
					for range g.moves {
						e, ok := b.GetEntry(p.ZobristKey())
						if !ok {
							break
						}
						for _, s := range e.Moves {
							if !mg.ValidateMove(p, Move(s.Move).MoveOf()) {
								rep.Violate("book-offers-illegal-move", in, fmt.Sprintf("%s in %s", Move(s.Move).StringUci(), p.StringFen()))
							} else {
								q := *p
								q.DoMove(Move(s.Move).MoveOf())
								if uint64(q.ZobristKey()) != s.NextEntry {
									rep.Violate("book-edge-wrong-successor", in, fmt.Sprintf("%s in %s", Move(s.Move).StringUci(), p.StringFen()))
								}
							}
						}
						break
					}
				}
			}
		}
		rep.Distinct++
		if c == 0 {
			rep.Sample(map[string]interface{}{"san_file_head": files["san.txt"][:min(300, len(files["san.txt"]))], "positions": len(exp)})
		}
	}
	return rep.Emit()
}

// c20-monitor <books> <seed> <stride>: cache round trip and every (stride-th) prefix of the cache
// file plus corrupted variants: Initialize terminates (twice in one process) and yields the book
// built from the source.
func c20Monitor(args []string) int {
	n, _ := strconv.Atoi(args[0])
	seed, _ := strconv.ParseUint(args[1], 10, 64)
	stride := 1
	if len(args) > 2 {
		stride, _ = strconv.Atoi(args[2])
	}
	rng := NewRng(seed)
	rep := NewReport("c20-monitor")
	dir, _ := ioutil.TempDir("", "verifcache")
	defer os.RemoveAll(dir)
	// another book is built and cached first in this process: every cache written below is then not the first
	// one this process writes (whatever the save path keeps between two saves must not leak into the next file)
	var preludeExp bookSnapshot
	{
		pg := genBookGames(rng, 2+rng.Intn(4))
		preludeExp = expectedBook(pg)
		ioutil.WriteFile(filepath.Join(dir, "prelude.txt"), []byte(renderSan(pg)), 0644)
		if pb, err, hung := buildBook(dir, "prelude.txt", openingbook.San, true); hung || err != nil {
			rep.Violate("cache-build-fails", map[string]interface{}{"collection": "prelude"}, fmt.Sprint(err, hung))
		} else if d := diffSnap(expectedBook(pg), snapshotOf(pb)); d != "" {
			rep.Violate("cache-build-differs-from-source", map[string]interface{}{"collection": "prelude"}, d)
		}
	}
	// the cache's normal life: written by one engine process, read by the next one
	{
		xg := genBookGames(rng, 2+rng.Intn(5))
		ioutil.WriteFile(filepath.Join(dir, "xproc.txt"), []byte(renderSan(xg)), 0644)
		in := map[string]interface{}{"collection": "xproc", "variant": "cache written by another process", "seed": seed}
		setCurrent(in)
		rep.Cases++
		cmd := exec.Command(os.Args[0], "c20-write", dir, "xproc.txt")
		cmd.Env = os.Environ()
		if out, err := cmd.CombinedOutput(); err != nil {
			rep.Violate("cache-build-fails", in, "the writing process failed: "+err.Error()+" "+string(out[:min(len(out), 300)]))
		} else if _, err := os.Stat(filepath.Join(dir, "xproc.txt.cache")); err != nil {
			rep.Violate("cache-build-fails", in, "the writing process left no cache file")
		} else if xb, err, hung := buildBook(dir, "xproc.txt", openingbook.San, true); hung || err != nil {
			rep.Violate("cache-damaged-error", in, fmt.Sprint(err, hung))
		} else if d := diffSnap(expectedBook(xg), snapshotOf(xb)); d != "" {
			rep.Violate("cache-roundtrip", in, "the book loaded from a cache that another process wrote: "+d)
		} else {
			rep.Stats["cache_written_by_another_process"]++
		}
	}
	for c := 0; c < n; c++ {
		games := genBookGames(rng, 2+rng.Intn(6))
		src := filepath.Join(dir, "book.txt")
		cache := src + ".cache"
		os.Remove(cache)
		ioutil.WriteFile(src, []byte(renderSan(games)), 0644)
		exp := expectedBook(games)
		// build with cache (writes the cache), then load from cache
		b1, err, hung := buildBook(dir, "book.txt", openingbook.San, true)
		if hung || err != nil {
			rep.Violate("cache-build-fails", map[string]interface{}{"collection": c}, fmt.Sprint(err, hung))
			continue
		}
		if d := diffSnap(exp, snapshotOf(b1)); d != "" {
			rep.Violate("cache-build-differs-from-source", map[string]interface{}{"collection": c}, d)
		}
		full, _ := ioutil.ReadFile(cache)
		b2, err, hung := buildBook(dir, "book.txt", openingbook.San, true)
		rep.Cases++
		if hung || err != nil || diffSnap(exp, snapshotOf(b2)) != "" {
			rep.Violate("cache-roundtrip", map[string]interface{}{"collection": c, "cache_bytes": len(full)}, "book loaded from the cache differs from the book built from the source")
		}
		rep.Stats["cache_bytes"] += len(full)
		variants := [][]byte{}
		names := []string{}
		for k := 0; k < len(full); k += stride {
			variants = append(variants, full[:k])
			names = append(names, fmt.Sprintf("prefix-%d", k))
		}
		for k := 0; k < 60 && len(full) > 0; k++ {
			v := append([]byte{}, full...)
			i := rng.Intn(len(v))
			v[i] ^= byte(1 << uint(rng.Intn(8)))
			if k%3 == 0 {
				v = v[:i+1]
			}
			variants = append(variants, v)
			names = append(names, fmt.Sprintf("bitflip-at-%d", i))
		}
		variants = append(variants, []byte("garbage that is not gob"))
		names = append(names, "garbage")
		// the cache path cannot be read as a file nor be re-created (a directory stands there): initialisation
		// still yields the source-built book, also when repeated in the same process
		{
			os.Remove(cache)
			os.Mkdir(cache, 0755)
			in := map[string]interface{}{"collection": c, "variant": "cache-path-is-a-directory", "seed": seed}
			setCurrent(in)
			rep.Cases++
			for round := 0; round < 2; round++ {
				b, err, hung := buildBook(dir, "book.txt", openingbook.San, true)
				if hung {
					os.Remove(cache)
					rep.Violate("cache-damaged-hangs", in, fmt.Sprintf("Initialize did not return within 30 s (round %d)", round))
					return rep.Emit()
				}
				if err != nil {
					rep.Violate("cache-damaged-error", in, err.Error())
					break
				}
				if d := diffSnap(exp, snapshotOf(b)); d != "" {
					rep.Violate("cache-damaged-wrong-book", in, d)
					break
				}
			}
			os.Remove(cache)
		}
		for vi, v := range variants {
			ioutil.WriteFile(cache, v, 0644)
			rep.Cases++
			in := map[string]interface{}{"collection": c, "variant": names[vi], "cache_bytes": len(full), "seed": seed}
			setCurrent(in)                       // a panic inside Initialize (it runs in its own goroutine) kills the process: the driver reports this input
			for round := 0; round < 2; round++ { // repeated initialisation in one process
				ioutil.WriteFile(cache, v, 0644)
				b, err, hung := buildBook(dir, "book.txt", openingbook.San, true)
				if hung {
					rep.Violate("cache-damaged-hangs", in, fmt.Sprintf("Initialize did not return within 30 s (round %d)", round))
					return rep.Emit() // the package lock is stuck: nothing more can be tested in this process
				}
				if err != nil {
					rep.Violate("cache-damaged-error", in, err.Error())
					break
				}
				// a corrupted but still decodable cache (bit flip in a counter) is outside the property;
				// one that gob rejects is "otherwise undecodable" and must give the source-built book
				if strings.HasPrefix(names[vi], "bitflip") {
					rep.Stats["bitflip_variants"]++
					var probe map[uint64]openingbook.BookEntry
					if gob.NewDecoder(bytes.NewReader(v)).Decode(&probe) == nil {
						rep.Stats["bitflip_still_decodable"]++
						break
					}
					in["gob_rejects_this_file"] = true
				}
				if d := diffSnap(exp, snapshotOf(b)); d != "" {
					rep.Violate("cache-damaged-wrong-book", in, d)
					break
				}
			}
		}
		// the same Book object initialised again after Reset() (the API offers it) while the cache is missing,
		// damaged or bypassed: the book must be the source-built one, and so must the cache it writes back
		{
			half := []byte{}
			if len(full) > 1 {
				half = full[:len(full)/2]
			}
			for _, rv := range []struct {
				name  string
				data  []byte // nil = no cache file
				reuse bool   // load through the cache / recreate it
			}{{"missing", nil, true}, {"garbage", []byte("garbage that is not gob"), true}, {"half", half, true}, {"empty", []byte{}, true}} {
				in := map[string]interface{}{"collection": c, "variant": "reset-then-" + rv.name + "-cache", "seed": seed}
				setCurrent(in)
				rep.Cases++
				os.Remove(cache)
				ob, err, hung := buildBook(dir, "book.txt", openingbook.San, true) // an initialised object (writes a good cache)
				if hung || err != nil {
					rep.Violate("cache-build-fails", in, fmt.Sprint(err, hung))
					break
				}
				ob.Reset()
				os.Remove(cache)
				if rv.data != nil {
					ioutil.WriteFile(cache, rv.data, 0644)
				}
				var ierr error
				if !callWithWatchdog(30*time.Second, func() { ierr = ob.Initialize(dir, "book.txt", openingbook.San, true, false) }) {
					rep.Violate("cache-damaged-hangs", in, "Initialize after Reset did not return within 30 s")
					return rep.Emit()
				}
				if ierr != nil {
					rep.Violate("cache-damaged-error", in, ierr.Error())
					continue
				}
				if d := diffSnap(exp, snapshotOf(ob)); d != "" {
					rep.Violate("cache-damaged-wrong-book", in, "the re-initialised object: "+d)
					continue
				}
				// what it wrote back is loaded by a fresh object
				nb, err, hung := buildBook(dir, "book.txt", openingbook.San, true)
				if hung || err != nil || diffSnap(exp, snapshotOf(nb)) != "" {
					rep.Violate("cache-roundtrip", in, "the cache written by the re-initialised object does not load as the source-built book")
				}
				rep.Stats["reset_then_initialize_cases"]++
			}
			os.Remove(cache)
			// the same object serves two different books one after the other, both from intact caches
			in := map[string]interface{}{"collection": c, "variant": "one object: book.txt from its cache, Reset(), prelude.txt from its cache", "seed": seed}
			setCurrent(in)
			rep.Cases++
			if _, err, hung := buildBook(dir, "book.txt", openingbook.San, true); !hung && err == nil { // writes the cache
				ob, err, hung := buildBook(dir, "book.txt", openingbook.San, true) // served from the cache
				if hung || err != nil {
					rep.Violate("cache-build-fails", in, fmt.Sprint(err, hung))
				} else {
					ob.Reset()
					var ierr error
					if !callWithWatchdog(30*time.Second, func() { ierr = ob.Initialize(dir, "prelude.txt", openingbook.San, true, false) }) {
						rep.Violate("cache-damaged-hangs", in, "Initialize after Reset did not return within 30 s")
						return rep.Emit()
					}
					if ierr != nil {
						rep.Violate("cache-damaged-error", in, ierr.Error())
					} else if d := diffSnap(preludeExp, snapshotOf(ob)); d != "" {
						rep.Violate("cache-roundtrip", in, "the second book loaded into the re-used object: "+d)
					}
				}
			}
			os.Remove(cache)
		}
		rep.Distinct += len(variants)
		if c == 0 {
			rep.Sample(map[string]interface{}{"cache_bytes": len(full), "variants": len(variants), "games": len(games)})
		}
	}
	rep.Extra["exhaustive_prefixes"] = stride == 1
	return rep.Emit()
}

// c20-write <dir> <file>: builds the book of <file> with the cache on (a process of its own: see c20-monitor)
func c20Write(args []string) int {
	b := openingbook.NewBook()
	if err := b.Initialize(args[0], args[1], openingbook.San, true, false); err != nil {
		fmt.Fprintln(os.Stderr, err)
		return 1
	}
	return 0
}

func init() {
	register("c20-write", c20Write)
	register("c19-monitor", c19Monitor)
	register("c20-monitor", c20Monitor)
}

// c19-cases <collections> <seed> <out.v>: per-game addToBook steps (from an independent replay) and
// the real book's entries, for BookModel.book_case_ok; c20 cases for CacheModel.cache_case_ok.
func c19Cases(args []string) int {
	n, _ := strconv.Atoi(args[0])
	seed, _ := strconv.ParseUint(args[1], 10, 64)
	rng := NewRng(seed)
	f, err := os.Create(args[2])
	if err != nil {
		die(err)
	}
	defer f.Close()
	var sb strings.Builder
	rep := NewReport("c19-cases")
	dir, _ := ioutil.TempDir("", "verifbookc")
	defer os.RemoveAll(dir)
	sb.WriteString("(* GENERATED by verifh c19-cases *)\nFrom Coq Require Import NArith List Bool String.\nFrom FG Require Import BookModel CacheModel CasesBook.\nImport ListNotations.\nOpen Scope N_scope.\n")
	sb.WriteString("Definition cases : list (N * list (list (N*N*N)) * list (N*N*list (N*N)) * list (list String.string) * list String.string) := [\n")
	for c := 0; c < n; c++ {
		games := genBookGames(rng, 3+rng.Intn(10))
		formats := []struct {
			file string
			f    openingbook.BookFormat
			txt  string
		}{{"s.txt", openingbook.Simple, renderSimple(games, rng)}, {"a.txt", openingbook.San, renderSan(games)}, {"p.pgn", openingbook.Pgn, renderPgn(games, rng)}}
		ft := formats[rng.Intn(3)]
		ioutil.WriteFile(filepath.Join(dir, ft.file), []byte(ft.txt), 0644)
		b, err, hung := buildBook(dir, ft.file, ft.f, false)
		if hung || err != nil {
			rep.Violate("book-build-fails", map[string]interface{}{"collection": c, "format": ft.file}, fmt.Sprint(err, hung))
			continue
		}
		root := position.NewPosition()
		if c > 0 {
			sb.WriteString(";\n")
		}
		fmt.Fprintf(&sb, "(%d, [", uint64(root.ZobristKey()))
		for gi, g := range games {
			if gi > 0 {
				sb.WriteString("; ")
			}
			sb.WriteString("[")
			p := position.NewPosition()
			for mi, m := range g.moves {
				if mi > 0 {
					sb.WriteString(";")
				}
				cur := uint64(p.ZobristKey())
				p.DoMove(m)
				fmt.Fprintf(&sb, "(%d,%d,%d)", cur, uint64(p.ZobristKey()), uint32(m.MoveOf()))
			}
			sb.WriteString("]")
		}
		sb.WriteString("], [")
		first := true
		_ = snapshotOf(b) // watchdog: a lock left held ends the run with a violation instead of a hang
		for k, e := range b.VerifEntries() {
			if !first {
				sb.WriteString("; ")
			}
			first = false
			fmt.Fprintf(&sb, "(%d,%d,[", k, e.Counter)
			for si, s := range e.Moves {
				if si > 0 {
					sb.WriteString(";")
				}
				fmt.Fprintf(&sb, "(%d,%d)", s.Move, s.NextEntry)
			}
			sb.WriteString("])")
		}
		// the coordinate tokens of every game (an illegal tail included) and the positions visited while
		// replaying its legal part, start position included: BookLegal.book_visited_case_ok walks the tokens
		// with the model and checks that no two of these positions collide on their zobrist key
		sb.WriteString("], [")
		for gi, g := range games {
			if gi > 0 {
				sb.WriteString("; ")
			}
			sb.WriteString("[")
			for ti, t := range g.uci {
				if ti > 0 {
					sb.WriteString(";")
				}
				fmt.Fprintf(&sb, "\"%s\"%%string", strings.ToLower(t))
			}
			sb.WriteString("]")
		}
		sb.WriteString("], [")
		nvis := 0
		keyOf := map[string]uint64{}
		for _, g := range games {
			p := position.NewPosition()
			for mi := 0; mi <= len(g.moves); mi++ {
				if nvis > 0 {
					sb.WriteString(";")
				}
				fmt.Fprintf(&sb, "\"%s\"%%string", p.StringFen())
				nvis++
				f := strings.Fields(p.StringFen())
				keyOf[strings.Join(f[:4], " ")] = uint64(p.ZobristKey())
				if mi < len(g.moves) {
					p.DoMove(g.moves[mi])
				}
			}
		}
		sb.WriteString("])")
		rep.Cases++
		rep.Stats["games"] += len(games)
		rep.Stats["visited_positions"] += nvis
		rep.Stats["distinct_visited_positions"] += len(keyOf)
	}
	sb.WriteString("].\nDefinition M := Eval vm_compute in (book_mismatches cases).\nPrint M.\n")
	// cache cases: (kind, nlines, useCache, recreate, prior, observed)
	sb.WriteString("Definition ccases : list (N * nat * bool * bool * N * (bool*bool*bool*bool*bool)) := [\n")
	games := genBookGames(rng, 3)
	src := filepath.Join(dir, "c.txt")
	ioutil.WriteFile(src, []byte(renderSan(games)), 0644)
	exp := expectedBook(games)
	bfull, _, _ := buildBook(dir, "c.txt", openingbook.San, true)
	_ = bfull
	full, _ := ioutil.ReadFile(src + ".cache")
	firstc := true
	for _, kind := range []int{0, 1, 2} {
		for _, useCache := range []bool{true, false} {
			for _, recreate := range []bool{false, true} {
				switch kind {
				case 0:
					os.Remove(src + ".cache")
				case 1:
					ioutil.WriteFile(src+".cache", full[:len(full)/2], 0644)
				case 2:
					ioutil.WriteFile(src+".cache", full, 0644)
				}
				b := openingbook.NewBook()
				var ierr error
				returned := callWithWatchdog(20*time.Second, func() { ierr = b.Initialize(dir, "c.txt", openingbook.San, useCache, recreate) })
				if !returned {
					rep.Violate("cache-init-hangs", map[string]interface{}{"kind": kind, "useCache": useCache, "recreate": recreate}, "")
					continue
				}
				eq := diffSnap(exp, snapshotOf(b)) == ""
				// lock free afterwards: another book can be built
				b2 := openingbook.NewBook()
				lockFree := callWithWatchdog(20*time.Second, func() { b2.Initialize(dir, "c.txt", openingbook.San, false, false) })
				after, _ := ioutil.ReadFile(src + ".cache")
				cacheGood := len(after) == len(full) && len(full) > 0 // gob writes map entries in random order: same length, not same bytes
				if !useCache {
					cacheGood = (kind == 2) // untouched
				}
				if !firstc {
					sb.WriteString(";\n")
				}
				firstc = false
				fmt.Fprintf(&sb, "(%d, %d%%nat, %v, %v, 0, (%v,%v,%v,%v,%v))", kind, len(games), useCache, recreate, returned, ierr == nil, lockFree, eq, cacheGood)
				rep.Cases++
			}
		}
	}
	sb.WriteString("].\nDefinition MC := Eval vm_compute in (cache_mismatches ccases).\nPrint MC.\n")
	f.WriteString(sb.String())
	rep.Distinct = rep.Cases
	rep.Sample(map[string]interface{}{"collections": n})
	return rep.Emit()
}

func init() { register("c19-cases", c19Cases) }
