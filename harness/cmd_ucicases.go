package main

import (
	"bufio"
	"fmt"
	"os"
	"strconv"
	"strings"

	"github.com/frankkopp/FrankyGo/internal/config"
	"github.com/frankkopp/FrankyGo/internal/uci"
)

func b2i(b bool) int {
	if b {
		return 1
	}
	return 0
}

// config.Settings in the order of CasesUci.all_fields
func cfgVector() []int {
	s := &config.Settings.Search
	e := &config.Settings.Eval
	return []int{b2i(s.UseTT), s.TTSize, b2i(s.UseBook), b2i(s.UsePonder), b2i(s.UseQuiescence), b2i(s.UseQSTT), b2i(s.UseSEE), b2i(s.UsePromNonQuiet),
		b2i(s.UsePVS), b2i(s.UseAspiration), b2i(s.UseMTDf), b2i(s.UseIID), b2i(s.UseKiller), b2i(s.UseHistoryCounter), b2i(s.UseCounterMoves),
		b2i(s.UseRFP), b2i(s.UseNullMove), b2i(s.UseMDP), b2i(s.UseFP), b2i(s.UseLmr), b2i(s.UseLmp),
		b2i(s.UseExt), b2i(s.UseExtAddDepth), b2i(s.UseCheckExt), b2i(s.UseThreatExt),
		b2i(e.UseLazyEval), b2i(e.UseMobility), b2i(e.UseAdvancedPieceEval)}
}

func coqBytes(s string) string {
	var sb strings.Builder
	sb.WriteString("[")
	for i := 0; i < len(s); i++ {
		if i > 0 {
			sb.WriteString(";")
		}
		sb.WriteString(strconv.Itoa(int(s[i])))
	}
	sb.WriteString("]")
	return sb.String()
}

func coqZs(v []int) string {
	var p []string
	for _, x := range v {
		p = append(p, fmt.Sprintf("(%d)%%Z", x))
	}
	return "[" + strings.Join(p, ";") + "]"
}

// uci-cases <n> <seed> <out.v>: sessions of command lines given to a fresh real UciHandler; the
// position FEN, config.Settings, the number of readyok answers and of accepted go commands go to
// CasesUci.uci_mismatches, which runs the dispatcher model UciModel.run on the same lines.
func uciCases(args []string) int {
	n, _ := strconv.Atoi(args[0])
	seed, _ := strconv.ParseUint(args[1], 10, 64)
	rng := NewRng(seed)
	f, err := os.Create(args[2])
	if err != nil {
		die(err)
	}
	defer f.Close()
	w := bufio.NewWriter(f)
	defer w.Flush()
	rep := NewReport("uci-cases")
	defer restoreDefaults()
	savedEval := config.Settings.Eval
	defer func() { config.Settings.Eval = savedEval }()
	templates := []string{
		"uci", "isready", "ucinewgame", "stop", "ponderhit", "debug on", "register later", "noop", "xyzzy",
		"position startpos", "position startpos moves e2e4 e7e5 g1f3", "position startpos moves e2e4 e7e5 g1f3 b8c6 f1b5 a7a6 b5c6 d7c6 e1g1",
		"position fen rnbqkbnr/pppppppp/8/8/8/8/PPPPPPPP/RNBQKBNR w KQkq - 0 1 moves e2e4",
		"position fen r3k2r/p1ppqpb1/bn2pnp1/3PN3/1p2P3/2N2Q1p/PPPBBPPP/R3K2R w KQkq - 0 1 moves e1g1 e8c8 d5e6",
		"position fen 8/P1k5/K7/8/8/8/8/8 w - - 0 1 moves a7a8q", "position fen 8/P1k5/K7/8/8/8/8/8 w - - 0 1 moves a7a8r c7c6", "position fen 8/P1k5/K7/8/8/8/8/8 w - - 0 1 moves a7a8b", "position fen 1n6/P1k5/K7/8/8/8/8/8 w - - 0 1 moves a7b8r", "position fen 1n6/P1k5/K7/8/8/8/8/8 w - - 0 1 moves a7b8b c7b8", "position fen 8/P1k5/K7/8/8/8/8/8 w - - 0 1 moves a7a8n c7c6",
		"position fen rnbqkbnr/ppp1p1pp/8/3pPp2/8/8/PPPP1PPP/RNBQKBNR w KQkq f6 0 3 moves e5f6", "position fen xyz", "position fen", "position",
		"position startpos moves e2e5", "position startpos moves e2e4 e2e4", "position startpos moves", "position startpos e2e4",
		"position fen 1n2k3/8/8/8/8/8/8/4RK2 w - - 0 1 moves e1e8 b8a6", "position fen 4k3/8/8/8/8/8/8/4K3 w - e6 0 1 moves e1e2",
		"position fen 4k3/8/8/8/8/8/8/4K3 w - - 0 1", "position fen 4k3/8/8/8/8/8/8/4K3 b - - 5 20 moves e8d8 e1d1",
		"go depth 1", "go depth", "go nodes 100", "go nodes", "go mate 1", "go mate", "go movetime 10", "go movetime", "go wtime 100 btime 100",
		"go wtime", "go btime 100", "go wtime 100", "go winc 10", "go winc", "go binc", "go movestogo 5 wtime 100 btime 100", "go movestogo", "go", "go infinite",
		"go ponder wtime 100 btime 100", "go depth x", "go nodes -5", "go depth -1", "go depth 99999999999999999999", "go searchmoves e2e4 depth 1",
		"go searchmoves", "go searchmoves e2e5 depth 1", "go moves e2e4 depth 1", "go wtime 0 btime 0", "go depth 1 depth 2", "go depth 1 ", " go depth 1",
		"setoption name Hash value 2", "setoption name Hash value -5", "setoption name Hash value abc", "setoption name Hash value 3", "setoption name Hash value 0", "setoption name Hash value 1", "setoption name Hash", "setoption name",
		"setoption", "setoption value 3", "setoption name Use_Hash value false", "setoption name Use_Hash value maybe", "setoption name Nonexistent value 1",
		"setoption name Clear Hash", "setoption name Print Config", "setoption name Ponder value true", "setoption name Ponder value false",
		"setoption name Use_PVS value false", "setoption name Use_PVS value TRUE", "setoption name Use_Killer value 0", "setoption name Use_Killer value t",
		"setoption name Eval_Lazy value true", "setoption name Eval_Mobility value true", "setoption name Eval_AdvPiece value True", "setoption name Use_Lmr value F",
		"setoption name use_lmr value false", "setoption name Use_Lmr  value  false", "setoption name Use_Lmr value", "setoption name Use_Lmr false",
		"setoption name Use_QHash value false", "setoption name Use_SEE value false", "setoption name Use_NullMove value false", "setoption name Quiescence value false",
		"  isready", "isready  ", "go\tdepth\t1", "isready\t", " isready",
	}
	names := []string{"Use_Hash", "Use_Book", "Ponder", "Quiescence", "Use_QHash", "Use_SEE", "Use_PromNonQuiet", "Use_PVS", "Use_ASP", "Use_MTDf", "Use_IID", "Use_Killer",
		"Use_HistCount", "Use_CounterMove", "Use_Rfp", "Use_NullMove", "Use_Mdp", "Use_Fp", "Use_Lmr", "Use_Lmp", "Use_Ext", "Use_ExtAddDepth", "Use_CheckExt", "Use_ThreatExt",
		"Eval_Lazy", "Eval_Mobility", "Eval_AdvPiece"}
	bools := []string{"true", "false", "1", "0", "t", "f", "T", "F", "TRUE", "FALSE", "True", "False", "yes", "on", ""}
	w.WriteString("(* GENERATED by verifh uci-cases: command sessions on the real UciHandler *)\nFrom Coq Require Import NArith ZArith List.\nFrom FG Require Import CasesUci.\nImport ListNotations.\nOpen Scope N_scope.\n")
	w.WriteString("Definition cases : list (list (list N) * list Z * (list N * list Z * N * N)) := [\n")
	accepted, rejected := 0, 0
	for c := 0; c < n; c++ {
		restoreDefaults()
		config.Settings.Eval = savedEval
		config.Settings.Search.UseBook = false
		config.Settings.Search.TTSize = 2
		u := uci.NewUciHandler()
		cfg0 := cfgVector()
		var lines []string
		readyoks, searches := 0, 0
		k := 2 + rng.Intn(7)
		bad := false
		for len(lines) < k && !bad {
			var line string
			switch r := rng.Intn(10); {
			case r < 6:
				line = templates[rng.Intn(len(templates))]
			case r < 7:
				toks := strings.Fields(templates[rng.Intn(len(templates))])
				line = strings.Join(toks[:1+rng.Intn(len(toks))], " ")
			case r < 9:
				line = "setoption name " + names[rng.Intn(len(names))] + " value " + bools[rng.Intn(len(bools))]
			default:
				line = mutate(rng, templates[rng.Intn(len(templates))])
			}
			t := strings.TrimSpace(line)
			if strings.HasPrefix(t, "quit") || strings.HasPrefix(t, "perft") || strings.ContainsAny(line, "\n\r") {
				continue
			}
			if strings.Contains(line, "Hash") && strings.Contains(line, "value") {
				fs := strings.Fields(line)
				if v, err := strconv.Atoi(fs[len(fs)-1]); err == nil && v > 64 {
					continue
				}
			}
			if strings.Contains(line, "Use_Book") { // loading the book is outside the dispatcher model
				continue
			}
			setCurrent(map[string]interface{}{"lines": append(append([]string{}, lines...), line), "seed": seed})
			out, pan, hung := uciCommand(u, line)
			if pan || hung {
				rep.Violate("uci-panic", map[string]interface{}{"lines": append(lines, line), "seed": seed}, fmt.Sprintf("panic=%v hung=%v %s", pan, hung, out))
				bad = true
				break
			}
			lines = append(lines, line)
			readyoks += strings.Count(out, "readyok")
			if fs := strings.Fields(line); len(fs) > 0 && fs[0] == "go" {
				if strings.Contains(out, "UCI command go") {
					rejected++
				} else {
					searches++
					accepted++
				}
				uciCommand(u, "stop")
				u.VerifSearch().WaitWhileSearching()
			}
		}
		if bad {
			continue
		}
		uciCommand(u, "stop")
		u.VerifSearch().WaitWhileSearching()
		fen := u.VerifPositionFen()
		cfg1 := cfgVector()
		if rep.Cases > 0 {
			w.WriteString(";\n")
		}
		var ls []string
		for _, l := range lines {
			ls = append(ls, coqBytes(l))
		}
		fmt.Fprintf(w, "([%s], %s, (%s, %s, %d, %d))", strings.Join(ls, ";"), coqZs(cfg0), coqBytes(fen), coqZs(cfg1), readyoks, searches)
		rep.Cases++
		rep.Stats["lines"] += len(lines)
		if c == 0 {
			rep.Sample(map[string]interface{}{"lines": lines, "fen_after": fen, "readyoks": readyoks, "accepted_go": searches})
		}
	}
	w.WriteString("].\nDefinition M := Eval vm_compute in (uci_mismatches cases).\nPrint M.\n")
	rep.Distinct = rep.Cases
	rep.Stats["go_accepted"] = accepted
	rep.Stats["go_rejected"] = rejected
	return rep.Emit()
}

func init() { register("uci-cases", uciCases) }
