package main

import (
	"bufio"
	"fmt"
	"os"
	"strconv"

	. "github.com/frankkopp/FrankyGo/internal/types"
)

// ---- reference geometry in Go (independent of the engine's tables) ----

var refDelta = map[Direction][2]int{North: {0, 1}, East: {1, 0}, South: {0, -1}, West: {-1, 0},
	Northeast: {1, 1}, Southeast: {1, -1}, Southwest: {-1, -1}, Northwest: {-1, 1}}

func refStep(sq int, df, dr int) int {
	f, r := sq&7+df, sq>>3+dr
	if f < 0 || f > 7 || r < 0 || r > 7 {
		return -1
	}
	return r*8 + f
}

func refSlide(dirs []Direction, sq int, occ uint64) uint64 {
	var res uint64
	for _, d := range dirs {
		dd := refDelta[d]
		s := sq
		for {
			s = refStep(s, dd[0], dd[1])
			if s < 0 {
				break
			}
			res |= 1 << uint(s)
			if occ&(1<<uint(s)) != 0 {
				break
			}
		}
	}
	return res
}

var refRookDirs = []Direction{North, East, South, West}
var refBishopDirs = []Direction{Northeast, Southeast, Southwest, Northwest}

func refLineMask(dirs []Direction, sq int) uint64 { return refSlide(dirs, sq, 0) }

// c18-monitor: exhaustive check of the real lookups against the Go reference: every
// square x every occupancy of the square's lines (plus random noise elsewhere), leapers,
// pawns, between, shifts on random boards.  Prints failing (piece, square, occupancy).
func c18Monitor(args []string) int {
	seed := uint64(1)
	if len(args) > 0 {
		s, _ := strconv.ParseUint(args[0], 10, 64)
		seed = s
	}
	noiseRounds := 1
	if len(args) > 1 {
		noiseRounds, _ = strconv.Atoi(args[1])
	}
	rng := NewRng(seed)
	rep := NewReport("c18-monitor")
	for _, pt := range []PieceType{Rook, Bishop} {
		dirs := refRookDirs
		if pt == Bishop {
			dirs = refBishopDirs
		}
		for sq := 0; sq < 64; sq++ {
			line := refLineMask(dirs, sq)
			// enumerate all subsets of the line (carry-rippler)
			sub := uint64(0)
			for {
				for k := 0; k < noiseRounds; k++ {
					noise := rng.U64() &^ line
					if k == 0 {
						noise = 0
					}
					occ := sub | noise
					got := uint64(GetAttacksBb(pt, Square(sq), Bitboard(occ)))
					want := refSlide(dirs, sq, occ)
					rep.Cases++
					if got != want {
						rep.Violate("slider-attacks", map[string]interface{}{"piece": pt.String(), "square": Square(sq).String(), "occupancy": fmt.Sprintf("0x%016x", occ)},
							fmt.Sprintf("GetAttacksBb=0x%016x geometric=0x%016x", got, want))
					}
					// queen
					if pt == Rook {
						gq := uint64(GetAttacksBb(Queen, Square(sq), Bitboard(occ)))
						wq := want | refSlide(refBishopDirs, sq, occ)
						if gq != wq {
							rep.Violate("slider-attacks", map[string]interface{}{"piece": "Queen", "square": Square(sq).String(), "occupancy": fmt.Sprintf("0x%016x", occ)},
								fmt.Sprintf("GetAttacksBb=0x%016x geometric=0x%016x", gq, wq))
						}
					}
				}
				sub = (sub - line) & line
				if sub == 0 {
					break
				}
			}
		}
	}
	rep.Stats["slider_entries"] = rep.Cases
	// the four line lookups of the older rotated-bitboard interface (rank, file, both diagonals): for every square
	// every subset of the square's own line plus arbitrary occupancy elsewhere vs the ray walk along that line
	type lineFn struct {
		name string
		f    func(Square, Bitboard) Bitboard
		dirs []Direction
	}
	for _, lf := range []lineFn{{"GetMovesOnRank", GetMovesOnRank, []Direction{East, West}}, {"GetMovesOnFile", GetMovesOnFile, []Direction{North, South}},
		{"GetMovesDiagUp", GetMovesDiagUp, []Direction{Northeast, Southwest}}, {"GetMovesDiagDown", GetMovesDiagDown, []Direction{Northwest, Southeast}}} {
		for sq := 0; sq < 64; sq++ {
			line := refLineMask(lf.dirs, sq)
			sub := uint64(0)
			for {
				for k := 0; k < 1+noiseRounds; k++ {
					noise := rng.U64() &^ line
					if k == 0 {
						noise = 0
					}
					occ := sub | noise
					got, want := uint64(lf.f(Square(sq), Bitboard(occ))), refSlide(lf.dirs, sq, occ)
					rep.Cases++
					rep.Stats["line_lookups"]++
					if got != want {
						rep.Violate("slider-attacks", map[string]interface{}{"piece": lf.name, "square": Square(sq).String(), "occupancy": fmt.Sprintf("0x%016x", occ)},
							fmt.Sprintf("%s=0x%016x geometric=0x%016x", lf.name, got, want))
					}
				}
				sub = (sub - line) & line
				if sub == 0 {
					break
				}
			}
		}
	}

	// leapers / pawns / distances / between
	kn := [][2]int{{1, 2}, {2, 1}, {2, -1}, {1, -2}, {-1, -2}, {-2, -1}, {-2, 1}, {-1, 2}}
	for sq := 0; sq < 64; sq++ {
		var k, n, pw, pb uint64
		for _, d := range refDelta {
			if t := refStep(sq, d[0], d[1]); t >= 0 {
				k |= 1 << uint(t)
			}
		}
		for _, d := range kn {
			if t := refStep(sq, d[0], d[1]); t >= 0 {
				n |= 1 << uint(t)
			}
		}
		for _, df := range []int{-1, 1} {
			if t := refStep(sq, df, 1); t >= 0 {
				pw |= 1 << uint(t)
			}
			if t := refStep(sq, df, -1); t >= 0 {
				pb |= 1 << uint(t)
			}
		}
		chk := func(name string, got, want uint64) {
			rep.Cases++
			if got != want {
				rep.Violate("table-"+name, map[string]interface{}{"square": Square(sq).String()}, fmt.Sprintf("got 0x%016x want 0x%016x", got, want))
			}
		}
		chk("king", uint64(GetPseudoAttacks(King, Square(sq))), k)
		chk("knight", uint64(GetPseudoAttacks(Knight, Square(sq))), n)
		chk("pawn-white", uint64(GetPawnAttacks(White, Square(sq))), pw)
		chk("pawn-black", uint64(GetPawnAttacks(Black, Square(sq))), pb)
		for sq2 := 0; sq2 < 64; sq2++ {
			// between
			var want uint64
			for _, d := range refDelta {
				s := sq
				var acc uint64
				for {
					s = refStep(s, d[0], d[1])
					if s < 0 {
						break
					}
					if s == sq2 {
						want = acc
						break
					}
					acc |= 1 << uint(s)
				}
			}
			rep.Cases++
			if got := uint64(Intermediate(Square(sq), Square(sq2))); got != want {
				rep.Violate("table-intermediate", map[string]interface{}{"from": Square(sq).String(), "to": Square(sq2).String()}, fmt.Sprintf("got 0x%016x want 0x%016x", got, want))
			}
			df, dr := sq&7-sq2&7, sq>>3-sq2>>3
			if df < 0 {
				df = -df
			}
			if dr < 0 {
				dr = -dr
			}
			if dr > df {
				df = dr
			}
			if got := SquareDistance(Square(sq), Square(sq2)); got != df {
				rep.Violate("table-distance", map[string]interface{}{"from": Square(sq).String(), "to": Square(sq2).String()}, fmt.Sprintf("got %d want %d", got, df))
			}
		}
	}
	// masks, rays, centre distance, neighbour tables, castling rights: geometric references
	{
		sqTo := VerifSqTo()
		sqbb := VerifSqBb()
		dirOrder := [][2]int{{0, 1}, {1, 0}, {0, -1}, {-1, 0}, {1, 1}, {1, -1}, {-1, -1}, {-1, 1}} // N,E,S,W,NE,SE,SW,NW
		// Orientation order of Ray(): NW, N, NE, E, SE, S, SW, W
		oriDelta := [][2]int{{-1, 1}, {0, 1}, {1, 1}, {1, 0}, {1, -1}, {0, -1}, {-1, -1}, {-1, 0}}
		for sq := 0; sq < 64; sq++ {
			f, r := sq&7, sq>>3
			pred := func(p func(ff, rr int) bool) uint64 {
				var b uint64
				for s := 0; s < 64; s++ {
					if p(s&7, s>>3) {
						b |= 1 << uint(s)
					}
				}
				return b
			}
			chk := func(name string, got, want uint64) {
				rep.Cases++
				if got != want {
					rep.Violate("table-"+name, map[string]interface{}{"square": Square(sq).String()}, fmt.Sprintf("got 0x%016x want 0x%016x", got, want))
				}
			}
			S := Square(sq)
			chk("sqbb", uint64(sqbb[sq]), 1<<uint(sq))
			chk("files-west", uint64(S.FilesWestMask()), pred(func(ff, rr int) bool { return ff < f }))
			chk("files-east", uint64(S.FilesEastMask()), pred(func(ff, rr int) bool { return ff > f }))
			chk("file-west", uint64(S.FileWestMask()), pred(func(ff, rr int) bool { return ff == f-1 }))
			chk("file-east", uint64(S.FileEastMask()), pred(func(ff, rr int) bool { return ff == f+1 }))
			chk("ranks-north", uint64(S.RanksNorthMask()), pred(func(ff, rr int) bool { return rr > r }))
			chk("ranks-south", uint64(S.RanksSouthMask()), pred(func(ff, rr int) bool { return rr < r }))
			chk("neighbour-files", uint64(S.NeighbourFilesMask()), pred(func(ff, rr int) bool { return ff == f-1 || ff == f+1 }))
			chk("passed-pawn-white", uint64(S.PassedPawnMask(White)), pred(func(ff, rr int) bool { return rr > r && ff >= f-1 && ff <= f+1 }))
			chk("passed-pawn-black", uint64(S.PassedPawnMask(Black)), pred(func(ff, rr int) bool { return rr < r && ff >= f-1 && ff <= f+1 }))
			chk("pseudo-rook", uint64(GetPseudoAttacks(Rook, S)), refSlide(refRookDirs, sq, 0))
			chk("pseudo-bishop", uint64(GetPseudoAttacks(Bishop, S)), refSlide(refBishopDirs, sq, 0))
			chk("pseudo-queen", uint64(GetPseudoAttacks(Queen, S)), refSlide(refRookDirs, sq, 0)|refSlide(refBishopDirs, sq, 0))
			for o := 0; o < 8; o++ {
				var want uint64
				s := sq
				for {
					s = refStep(s, oriDelta[o][0], oriDelta[o][1])
					if s < 0 {
						break
					}
					want |= 1 << uint(s)
				}
				chk("ray-"+Orientation(o).String(), uint64(S.Ray(Orientation(o))), want)
			}
			for d := 0; d < 8; d++ {
				want := refStep(sq, dirOrder[d][0], dirOrder[d][1])
				if want < 0 {
					want = 64
				}
				rep.Cases++
				if int(sqTo[sq][d]) != want {
					rep.Violate("table-sq-to", map[string]interface{}{"square": S.String(), "direction_index": d}, fmt.Sprintf("got %d want %d", int(sqTo[sq][d]), want))
				}
			}
			// centre distance: king-move distance to the nearest of d4,e4,d5,e5
			cdist := 8
			for _, c := range []int{27, 28, 35, 36} {
				df, dr := f-c&7, r-c>>3
				if df < 0 {
					df = -df
				}
				if dr < 0 {
					dr = -dr
				}
				if dr > df {
					df = dr
				}
				if df < cdist {
					cdist = df
				}
			}
			rep.Cases++
			if got := S.CenterDistance(); got != cdist {
				rep.Violate("table-center-distance", map[string]interface{}{"square": S.String()}, fmt.Sprintf("got %d want %d", got, cdist))
			}
			// castling rights lost when a piece moves from/to the square
			var cr CastlingRights
			switch sq {
			case 4:
				cr = CastlingWhite
			case 0:
				cr = CastlingWhiteOOO
			case 7:
				cr = CastlingWhiteOO
			case 60:
				cr = CastlingBlack
			case 56:
				cr = CastlingBlackOOO
			case 63:
				cr = CastlingBlackOO
			}
			rep.Cases++
			if got := GetCastlingRights(S); got != cr {
				rep.Violate("table-castling-rights", map[string]interface{}{"square": S.String()}, fmt.Sprintf("got %d want %d", int(got), int(cr)))
			}
		}
		cm := func(name string, got Bitboard, want uint64) {
			rep.Cases++
			if uint64(got) != want {
				rep.Violate("table-"+name, map[string]interface{}{"mask": name}, fmt.Sprintf("got 0x%016x want 0x%016x", uint64(got), want))
			}
		}
		cm("castle-mask-white-kingside", KingSideCastleMask(White), 1<<5|1<<6|1<<7)
		cm("castle-mask-black-kingside", KingSideCastleMask(Black), 1<<61|1<<62|1<<63)
		cm("castle-mask-white-queenside", QueenSideCastMask(White), 1<<0|1<<1|1<<2|1<<3)
		cm("castle-mask-black-queenside", QueenSideCastMask(Black), 1<<56|1<<57|1<<58|1<<59)
		var light, dark uint64
		for s := 0; s < 64; s++ {
			if (s&7+s>>3)%2 == 1 {
				light |= 1 << uint(s)
			} else {
				dark |= 1 << uint(s)
			}
		}
		cm("squares-white", SquaresBb(White), light)
		cm("squares-black", SquaresBb(Black), dark)
	}
	// shifts on random boards
	for i := 0; i < 20000; i++ {
		b := rng.U64()
		if i%4 == 0 {
			b &= rng.U64()
		}
		for d, dd := range refDelta {
			var want uint64
			for s := 0; s < 64; s++ {
				if b&(1<<uint(s)) != 0 {
					if t := refStep(s, dd[0], dd[1]); t >= 0 {
						want |= 1 << uint(t)
					}
				}
			}
			rep.Cases++
			if got := uint64(ShiftBitboard(Bitboard(b), d)); got != want {
				rep.Violate("shift", map[string]interface{}{"board": fmt.Sprintf("0x%016x", b), "direction": d.String()}, fmt.Sprintf("got 0x%016x want 0x%016x", got, want))
			}
		}
	}
	rep.Distinct = rep.Cases
	rep.Sample(map[string]interface{}{"piece": "Rook", "square": "a1", "occupancy": "0x0000010000000008", "attacks": fmt.Sprintf("0x%016x", uint64(GetAttacksBb(Rook, SqA1, 0x0000010000000008)))})
	return rep.Emit()
}

// c18-cases <n> <seed> <out.v>: real GetAttacksBb / ShiftBitboard observations on random
// full-board occupancies, as a Coq file whose evaluation compares them with the model's
// lookup functions (Tables.v).
func c18Cases(args []string) int {
	if len(args) < 3 {
		fmt.Fprintln(os.Stderr, "c18-cases <n> <seed> <out.v>")
		return 2
	}
	n, _ := strconv.Atoi(args[0])
	seed, _ := strconv.ParseUint(args[1], 10, 64)
	rng := NewRng(seed)
	f, err := os.Create(args[2])
	if err != nil {
		die(err)
	}
	defer f.Close()
	w := bufio.NewWriter(f)
	defer w.Flush()
	w.WriteString("(* GENERATED by verifh c18-cases: observations of the real engine *)\n")
	w.WriteString("From Coq Require Import NArith List.\nFrom FG Require Import Word64 Geom Tables CasesLib.\nImport ListNotations.\nOpen Scope N_scope.\n")
	w.WriteString("Definition slider_cases : list (N * N * N * N) := [\n") // (pt 0=rook 1=bishop 2=queen, sq, occ, observed)
	for i := 0; i < n; i++ {
		pt := rng.Intn(3)
		sq := rng.Intn(64)
		occ := rng.U64()
		switch rng.Intn(4) {
		case 0:
			occ &= rng.U64()
		case 1:
			occ &= rng.U64() & rng.U64()
		case 2:
			occ |= rng.U64()
		}
		gpt := []PieceType{Rook, Bishop, Queen}[pt]
		got := uint64(GetAttacksBb(gpt, Square(sq), Bitboard(occ)))
		if i > 0 {
			w.WriteString(";\n")
		}
		fmt.Fprintf(w, "(%d,%d,%d,%d)", pt, sq, occ, got)
	}
	w.WriteString("].\n")
	w.WriteString("Definition shift_cases : list (N * N * N) := [\n") // (dir index in all_dirs order N,E,S,W,NE,SE,SW,NW ; board ; observed)
	dirs := []Direction{North, East, South, West, Northeast, Southeast, Southwest, Northwest}
	for i := 0; i < n; i++ {
		d := rng.Intn(8)
		b := rng.U64()
		if i%3 == 0 {
			b &= rng.U64()
		}
		got := uint64(ShiftBitboard(Bitboard(b), dirs[d]))
		if i > 0 {
			w.WriteString(";\n")
		}
		fmt.Fprintf(w, "(%d,%d,%d)", d, b, got)
	}
	w.WriteString("].\n")
	w.WriteString("Definition M := Eval vm_compute in (c18_mismatches slider_cases shift_cases).\nPrint M.\n")
	rep := NewReport("c18-cases")
	rep.Cases = 2 * n
	rep.Distinct = 2 * n
	return rep.Emit()
}

func init() {
	register("c18-monitor", c18Monitor)
	register("c18-cases", c18Cases)
}
