package main

import (
	"fmt"
	"sort"
	"strconv"
	"strings"

	"github.com/frankkopp/FrankyGo/internal/config"
	"github.com/frankkopp/FrankyGo/internal/history"
	"github.com/frankkopp/FrankyGo/internal/movegen"
	"github.com/frankkopp/FrankyGo/internal/position"
	. "github.com/frankkopp/FrankyGo/internal/types"
)

func sortedCodes(ms []Move) []int {
	r := make([]int, len(ms))
	for i, m := range ms {
		r[i] = int(m.MoveOf())
	}
	sort.Ints(r)
	return r
}

func eqInts(a, b []int) bool {
	if len(a) != len(b) {
		return false
	}
	for i := range a {
		if a[i] != b[i] {
			return false
		}
	}
	return true
}

func hasDup(a []int) bool {
	for i := 1; i < len(a); i++ {
		if a[i] == a[i-1] {
			return true
		}
	}
	return false
}

func codesToUci(cs []int) string {
	s := ""
	for i, c := range cs {
		if i > 0 {
			s += " "
		}
		s += Move(c).StringUci()
	}
	return s
}

func modeName(m movegen.GenMode) string {
	switch m {
	case movegen.GenAll:
		return "all"
	case movegen.GenNonQuiet:
		return "nonquiet"
	case movegen.GenQuiet:
		return "quiet"
	}
	return "zero"
}

// c08-monitor <n> <seed>: all generation modes describe the same move set (real engine only).
func c08Monitor(args []string) int {
	n, _ := strconv.Atoi(args[0])
	seed, _ := strconv.ParseUint(args[1], 10, 64)
	rng := NewRng(seed)
	w := NewWalker(rng)
	rep := NewReport("c08-monitor")
	defer restoreDefaults()
	batch := movegen.NewMoveGen()
	od := movegen.NewMoveGen()      // one on-demand generator reused across all positions
	legalMg := movegen.NewMoveGen() // one generator for all legal-move-list queries
	hist := history.NewHistory()
	seen := map[uint64]bool{}
	abandoned := false
	abandonedKey := uint64(0)
	prevFen := ""
	var prevMoves []Move // moves of the previous position (for stale / alien state)
	lastODKey := uint64(0)
	body := func(g GamePos) {
		p := g.P
		fen := p.StringFen()
		rep.Cases++
		if !seen[uint64(p.ZobristKey())] {
			seen[uint64(p.ZobristKey())] = true
			rep.Distinct++
		}
		inCheck := p.HasCheck()
		legal := sortedCodes(w.legalMoves(p))
		for _, promNQ := range []bool{true, false} {
			config.Settings.Search.UsePromNonQuiet = promNQ
			get := func(mode movegen.GenMode, ev bool) []Move {
				ml := batch.GeneratePseudoLegalMoves(p, mode, ev)
				r := make([]Move, len(*ml))
				copy(r, *ml)
				return r
			}
			all := get(movegen.GenAll, false)
			allS := sortedCodes(all)
			base := map[string]interface{}{"fen": fen, "promotions_non_quiet": promNQ}
			if hasDup(allS) {
				rep.Violate("batch-duplicate-move", base, codesToUci(allS))
			}
			// captures-only and quiet-only partition the full set
			nq, qq := sortedCodes(get(movegen.GenNonQuiet, false)), sortedCodes(get(movegen.GenQuiet, false))
			union := append(append([]int{}, nq...), qq...)
			sort.Ints(union)
			if !eqInts(union, allS) {
				rep.Violate("modes-do-not-partition", base, fmt.Sprintf("nonquiet+quiet = [%s] ; all = [%s]", codesToUci(union), codesToUci(allS)))
			}
			// the legal move lists per mode, asked one after the other of ONE generator (in a random order of the
			// modes), are the pseudo-legal lists of that mode filtered for legality, and HasLegalMove agrees
			{
				lmg := legalMg
				order := [][]movegen.GenMode{{movegen.GenNonQuiet, movegen.GenQuiet, movegen.GenAll}, {movegen.GenAll, movegen.GenNonQuiet, movegen.GenQuiet}, {movegen.GenQuiet, movegen.GenAll, movegen.GenNonQuiet}}[rng.Intn(3)]
				for _, md := range order {
					var want []int
					for _, m := range get(md, false) {
						if p.IsLegalMove(m) {
							want = append(want, int(m.MoveOf()))
						}
					}
					sort.Ints(want)
					var got []int
					for _, m := range *lmg.GenerateLegalMoves(p, md) {
						got = append(got, int(m.MoveOf()))
					}
					sort.Ints(got)
					if !eqInts(got, want) {
						in := map[string]interface{}{"fen": fen, "promotions_non_quiet": promNQ, "mode": modeName(md), "modes_asked_in_order": fmt.Sprint(order)}
						rep.Violate("on-demand-differs-from-batch", in, fmt.Sprintf("legal move list of the mode [%s] ; pseudo-legal moves of the mode that are legal [%s]", codesToUci(got), codesToUci(want)))
						break
					}
					if md == movegen.GenAll && lmg.HasLegalMove(p) != (len(got) > 0) {
						rep.Violate("has-legal-move-wrong", map[string]interface{}{"fen": fen}, fmt.Sprintf("HasLegalMove=%v, %d legal moves", lmg.HasLegalMove(p), len(got)))
					}
				}
				rep.Stats["legal_lists_per_mode_on_one_generator"]++
			}
			// evasion mode
			if inCheck {
				for _, mode := range []movegen.GenMode{movegen.GenAll, movegen.GenNonQuiet, movegen.GenQuiet} {
					evs := sortedCodes(get(mode, true))
					full := sortedCodes(get(mode, false))
					in := map[string]interface{}{"fen": fen, "promotions_non_quiet": promNQ, "mode": modeName(mode)}
					if hasDup(evs) {
						rep.Violate("evasion-duplicate-move", in, codesToUci(evs))
					}
					fullSet := map[int]bool{}
					for _, c := range full {
						fullSet[c] = true
					}
					var legalEv []int
					for _, c := range evs {
						if !fullSet[c] {
							rep.Violate("evasion-not-pseudo-legal", in, Move(c).StringUci())
						}
						if p.IsLegalMove(Move(c)) {
							legalEv = append(legalEv, c)
						}
					}
					if mode == movegen.GenAll && !eqInts(legalEv, legal) {
						rep.Violate("evasion-omits-legal-move", in, fmt.Sprintf("legal evasions [%s] ; legal moves [%s]", codesToUci(legalEv), codesToUci(legal)))
					}
				}
				rep.Stats["positions_in_check"]++
			}
			// on-demand generator with random history
			for _, mode := range []movegen.GenMode{movegen.GenAll, movegen.GenNonQuiet, movegen.GenQuiet} {
				for _, ev := range []bool{false, true} {
					if ev && !inCheck {
						continue
					}
					want := sortedCodes(get(mode, ev))
					// generator history
					// without reset the generator is only reused ACROSS positions (a second
					// enumeration of the same position needs ResetOnDemand by design)
					reset := rng.Chance(60) || lastODKey == uint64(p.ZobristKey())
					if abandoned && uint64(p.ZobristKey()) == abandonedKey {
						reset = true // same position again: a second enumeration needs a reset by design
					}
					abandonedKey = uint64(p.ZobristKey())
					lastODKey = uint64(p.ZobristKey())
					if reset {
						od.ResetOnDemand()
					}
					pv := MoveNone
					alien := false
					switch r := rng.Intn(10); {
					case r < 5 && len(all) > 0:
						pv = all[rng.Intn(len(all))]
					case r < 6 && len(prevMoves) > 0:
						pv = prevMoves[rng.Intn(len(prevMoves))] // possibly not a move of this position
						alien = true
						for _, m := range all {
							if m.MoveOf() == pv.MoveOf() {
								alien = false
							}
						}
					}
					if pv != MoveNone {
						od.SetPvMove(pv)
					} else if !reset {
						// stale pv from an earlier position may still be set: find out
						pv = od.PvMove()
						alien = pv != MoveNone
						for _, m := range all {
							if m.MoveOf() == pv.MoveOf() {
								alien = false
							}
						}
					}
					for k := rng.Intn(3); k > 0 && len(all) > 0; k-- {
						od.StoreKiller(all[rng.Intn(len(all))])
					}
					if rng.Chance(50) {
						od.SetHistoryData(hist)
						for k := 0; k < 5 && len(all) > 0; k++ {
							m := all[rng.Intn(len(all))]
							hist.HistoryCount[p.NextPlayer()][m.From()][m.To()] = int64(rng.Intn(1 << uint(rng.Intn(20))))
							hist.CounterMoves[p.LastMove().From()][p.LastMove().To()] = all[rng.Intn(len(all))].MoveOf()
						}
					}
					var got []Move
					panicked := func() (pan bool) {
						defer func() {
							if r := recover(); r != nil {
								pan = true
								rep.Violate("generator-panics", map[string]interface{}{"fen": fen, "previous_fen": prevFen, "promotions_non_quiet": promNQ, "mode": modeName(mode), "evasion": ev,
									"pv": pv.StringUci(), "reset": reset, "predecessor_abandoned_mid_enumeration": abandoned}, fmt.Sprint(r))
							}
						}()
						for m := od.GetNextMove(p, mode, ev); m != MoveNone; m = od.GetNextMove(p, mode, ev) {
							got = append(got, m)
							if len(got) > 400 {
								break
							}
						}
						return false
					}()
					if panicked {
						od = movegen.NewMoveGen() // the generator's state is undefined now
						abandoned = false
						continue
					}
					gotS := sortedCodes(got)
					in := map[string]interface{}{"fen": fen, "promotions_non_quiet": promNQ, "mode": modeName(mode), "evasion": ev,
						"pv": pv.StringUci(), "reset": reset, "alien_pv": alien, "previous_fen": prevFen, "predecessor_abandoned_mid_enumeration": abandoned}
					inSet := false
					for _, c := range want {
						if c == int(pv.MoveOf()) {
							inSet = true
						}
					}
					if alien {
						// a PV move that does not belong to the position
						filtered := gotS[:0:0]
						for _, c := range gotS {
							if c != int(pv.MoveOf()) {
								filtered = append(filtered, c)
							}
						}
						if len(filtered) != len(gotS) {
							rep.Violate("on-demand-alien-pv-emitted", map[string]interface{}{"alien_pv": true, "fen": fen, "pv": pv.StringUci(), "mode": modeName(mode)},
								"a PV move that is not a move of the position was handed out")
						}
						gotS = filtered
					}
					if ev {
						// evasion: only pseudo-legal moves, none twice, omitting only illegal ones
						fullSet := map[int]bool{}
						for _, c := range allS {
							fullSet[c] = true
						}
						var legalGot, legalWant []int
						for _, c := range gotS {
							if !fullSet[c] {
								rep.Violate("evasion-not-pseudo-legal", in, Move(c).StringUci())
							} else if p.IsLegalMove(Move(c)) {
								legalGot = append(legalGot, c)
							}
						}
						for _, c := range sortedCodes(get(mode, false)) {
							if p.IsLegalMove(Move(c)) {
								legalWant = append(legalWant, c)
							}
						}
						if hasDup(gotS) {
							rep.Violate("evasion-duplicate-move", in, codesToUci(gotS))
						}
						if !eqInts(legalGot, legalWant) {
							rep.Violate("evasion-omits-legal-move", in, fmt.Sprintf("legal among on-demand evasions [%s] ; legal moves of that mode [%s]", codesToUci(legalGot), codesToUci(legalWant)))
						} else if pv != MoveNone && !alien && len(got) > 0 && got[0].MoveOf() != pv.MoveOf() {
							// a PV move that is among the delivered evasions comes first there as well
							for _, c := range legalGot {
								if c == int(pv.MoveOf()) {
									rep.Violate("on-demand-pv-not-first", in, fmt.Sprintf("evasion mode: first move %s", got[0].StringUci()))
									break
								}
							}
						}
					} else if !eqInts(gotS, want) {
						rep.Violate("on-demand-differs-from-batch", in, fmt.Sprintf("on demand [%s] ; batch [%s]", codesToUci(gotS), codesToUci(want)))
					} else if inSet && !alien && (len(got) == 0 || got[0].MoveOf() != pv.MoveOf()) {
						rep.Violate("on-demand-pv-not-first", in, fmt.Sprintf("first move %s", got[0].StringUci()))
					}
					rep.Stats["on_demand_drains"]++
					// every move of the position as PV move (corpus positions and a share of the others): the
					// stages differ in how they sort, so the stage the PV move lives in matters
					if !ev && (len(g.Moves) == 0 || rng.Chance(6)) {
						for _, pvm := range get(mode, inCheck) { // PV moves from the delivered set itself
							od2 := movegen.NewMoveGen()
							od2.SetPvMove(pvm)
							q := *p
							var got2 []Move
							for {
								m := od2.GetNextMove(&q, mode, inCheck)
								if m == MoveNone || len(got2) > 400 {
									break
								}
								got2 = append(got2, m)
							}
							want2 := sortedCodes(get(mode, inCheck))
							in2 := map[string]interface{}{"fen": fen, "mode": modeName(mode), "evasion": inCheck, "pv": pvm.StringUci(), "reset": true, "alien_pv": false}
							g2 := sortedCodes(got2)
							if hasDup(g2) {
								rep.Violate("batch-duplicate-move", in2, "on demand delivers a move twice: "+codesToUci(g2))
							} else if inCheck {
								// evasion mode: phased and batch lists may differ in illegal moves only
								var lg, lw []int
								for _, c := range g2 {
									if p.IsLegalMove(Move(c)) {
										lg = append(lg, c)
									}
								}
								for _, c := range want2 {
									if p.IsLegalMove(Move(c)) {
										lw = append(lw, c)
									}
								}
								if !eqInts(lg, lw) {
									rep.Violate("evasion-omits-legal-move", in2, fmt.Sprintf("legal among on-demand evasions [%s] ; legal among batch evasions [%s]", codesToUci(lg), codesToUci(lw)))
								}
							} else if !eqInts(g2, want2) {
								rep.Violate("on-demand-differs-from-batch", in2, fmt.Sprintf("on demand [%s] ; batch [%s]", codesToUci(g2), codesToUci(want2)))
							} else {
								inMode := false
								for _, c := range want2 {
									if c == int(pvm.MoveOf()) {
										inMode = true
									}
								}
								if inMode && got2[0].MoveOf() != pvm.MoveOf() {
									rep.Violate("on-demand-pv-not-first", in2, "first move "+got2[0].StringUci())
								}
							}
							rep.Stats["pv_sweep_drains"]++
						}
					}
					// sometimes leave the generator half drained on this position before the next one
					if rng.Chance(30) {
						// a new enumeration of this position that is abandoned after a few moves (as a search does
						// after a beta cut): the next position may then be generated without a reset
						od.ResetOnDemand()
						if rng.Chance(40) && len(all) > 0 {
							od.SetPvMove(all[rng.Intn(len(all))])
						}
						for k := 1 + rng.Intn(6); k > 0; k-- {
							od.GetNextMove(p, mode, ev)
						}
						lastODKey = 0 // the generator is in the middle of a batch: the next use may come without reset
						abandoned = true
					} else {
						abandoned = false
					}
				}
			}
		}
		// HasLegalMove
		if hl := batch.HasLegalMove(p); hl != (len(legal) > 0) {
			rep.Violate("has-legal-move-wrong", map[string]interface{}{"fen": fen}, fmt.Sprintf("HasLegalMove=%v but %d legal moves", hl, len(legal)))
		}
		prevMoves = append(prevMoves[:0], w.legalMoves(p)...)
		prevFen = fen
		rep.Sample(map[string]interface{}{"fen": fen, "pseudo_legal": len(legal)})
	}
	w.Stream(n, true, body)
	// one-mover positions: the king of the side to move is stalemated by a fixed net and ONE more piece or pawn
	// of its colour stands somewhere (pawns also on their start rank with the single or the double step blocked):
	// whether a legal move exists then depends on exactly one stage of the generator / of HasLegalMove
	nets := []string{"k7/P7/K7/8/8/8/8/8 b - - 0 1", "7k/5K2/6Q1/8/8/8/8/8 b - - 0 1", "k7/2Q5/1K6/8/8/8/8/8 b - - 0 1", "7k/7P/5K2/8/8/8/8/8 b - - 0 1", "5k2/5P2/5K2/8/8/8/8/8 b - - 0 1"}
	for k := 0; k < 40+n/20; k++ {
		net := nets[rng.Intn(len(nets))]
		f := strings.Fields(net)
		board := expandFenBoard(f[0])
		kind := "pppnbrq"[rng.Intn(7)]
		sq := rng.Intn(64)
		if kind == 'p' {
			if rng.Chance(60) {
				sq = 48 + rng.Intn(8) // start rank
			} else {
				sq = 8 + rng.Intn(48)
			}
		}
		if board[sq] != ' ' {
			continue
		}
		board[sq] = kind
		if kind == 'p' && rng.Chance(70) { // a blocker one or two squares ahead
			ahead := sq - 8
			if rng.Bool() && sq >= 48 {
				ahead = sq - 16
			}
			if ahead >= 0 && board[ahead] == ' ' {
				board[ahead] = "PNBp"[rng.Intn(4)]
			}
		}
		fen := compressFenBoard(board) + " b - - 0 1"
		if rng.Bool() {
			fen = mirrorFen(fen)
		}
		p, err := position.NewPositionFen(fen)
		if err != nil || p == nil || p.IsAttacked(p.KingSquare(p.NextPlayer().Flip()), p.NextPlayer()) {
			continue
		}
		rep.Stats["one_mover_positions"]++
		body(GamePos{Root: fen, P: p})
	}
	_ = position.StartFen
	return rep.Emit()
}

func init() { register("c08-monitor", c08Monitor) }
