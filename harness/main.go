// Command verifh is the Go side of the /verif machinery: it drives the real
// FrankyGo packages (built from /repo's working tree with -tags verif) and
// prints observations that the Coq/OCaml side compares with the formal model.
package main

import (
	"fmt"
	"io/ioutil"
	golog "log"
	"os"

	"github.com/frankkopp/FrankyGo/internal/config"
)

var commands = map[string]func(args []string) int{}

func register(name string, f func(args []string) int) { commands[name] = f }

func quiet() {
	golog.SetOutput(ioutil.Discard)
	config.LogLevel = 0
	config.SearchLogLevel = 0
	config.Settings.Search.UseBook = false
}

func main() {
	if len(os.Args) < 2 {
		fmt.Fprintln(os.Stderr, "usage: verifh <command> [args]")
		os.Exit(2)
	}
	quiet()
	if dn, err := os.OpenFile(os.DevNull, os.O_WRONLY, 0); err == nil && os.Getenv("VERIF_STDOUT") == "" {
		os.Stdout = dn
	}
	f, ok := commands[os.Args[1]]
	if !ok {
		fmt.Fprintln(os.Stderr, "unknown command", os.Args[1])
		os.Exit(2)
	}
	os.Exit(f(os.Args[2:]))
}
