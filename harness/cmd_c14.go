package main

import (
	"fmt"
	. "github.com/frankkopp/FrankyGo/internal/types"
	"strconv"
	"time"

	"github.com/frankkopp/FrankyGo/internal/config"
	"github.com/frankkopp/FrankyGo/internal/position"
	"github.com/frankkopp/FrankyGo/internal/search"
)

// callWithWatchdog runs f and reports whether it returned within d.
func callWithWatchdog(d time.Duration, f func()) bool {
	done := make(chan struct{})
	go func() { f(); close(done) }()
	select {
	case <-done:
		return true
	case <-time.After(d):
		return false
	}
}

// c14-monitor <storms> <seed>: random sequences of lifecycle calls on one Search object from a
// controller goroutine, with delays inside the timer's 5 ms polling window; every call must
// return (watchdog), every accepted start delivers exactly one result that belongs to it, a start
// while running is rejected without blocking, infinite/ponder searches end only after their stop.
// Built with -race the same run is the data race monitor.
func c14Monitor(args []string) int {
	n, _ := strconv.Atoi(args[0])
	seed, _ := strconv.ParseUint(args[1], 10, 64)
	rng := NewRng(seed)
	rep := NewReport("c14-monitor")
	defer restoreDefaults()
	config.Settings.Search = savedSearchCfg
	config.Settings.Search.UseBook = false
	config.Settings.Search.TTSize = 2
	fens := []string{position.StartFen, "r3k2r/p1ppqpb1/bn2pnp1/3PN3/1p2P3/2N2Q1p/PPPBBPPP/R3K2R w KQkq - 0 1", "8/2p5/3p4/KP5r/1R3p1k/8/4P1P1/8 w - - 0 1", "6k1/5ppp/8/8/8/8/5PPP/3R2K1 w - - 0 1", "4k3/8/3b4/8/8/8/5PPq/6K1 w - - 0 1"}
	wd := 15 * time.Second
	for storm := 0; storm < n; storm++ {
		s := search.NewSearch()
		d := &captureDriver{}
		s.SetUciHandler(d)
		var log []string
		in := func() map[string]interface{} {
			return map[string]interface{}{"storm": storm, "seed": seed, "calls": fmt.Sprint(log)}
		}
		accepted := 0         // starts that were accepted (no search running at that time)
		var kinds []string    // kind of every accepted search
		var stopIssued []bool // a stop/ponderhit was issued after the start of search i
		bad := false
		call := func(name string, f func()) bool {
			log = append(log, name)
			setCurrent(in())
			if !callWithWatchdog(wd, f) {
				rep.Violate("lifecycle-call-hangs", in(), name+" did not return within 15 s")
				bad = true
				return false
			}
			return true
		}
		sleepShort := func() {
			switch rng.Intn(4) {
			case 0:
			case 1:
				time.Sleep(time.Duration(rng.Intn(900)) * time.Microsecond)
			default:
				time.Sleep(time.Duration(rng.Intn(7000)) * time.Microsecond)
			}
		}
		steps := 6 + rng.Intn(14)
		for i := 0; i < steps && !bad; i++ {
			p, _ := position.NewPositionFen(fens[rng.Intn(len(fens))])
			switch r := rng.Intn(20); {
			case r < 8: // start
				sl := search.NewSearchLimits()
				kind := ""
				switch rng.Intn(5) {
				case 0:
					sl.Depth = 1 + rng.Intn(3)
					kind = "depth"
				case 1:
					sl.TimeControl = true
					sl.WhiteTime, sl.BlackTime = time.Duration(20+rng.Intn(400))*time.Millisecond, time.Duration(20+rng.Intn(400))*time.Millisecond
					kind = "clock"
				case 2:
					sl.TimeControl = true
					sl.MoveTime = time.Duration(1+rng.Intn(40)) * time.Millisecond
					kind = "movetime"
				case 3:
					sl.Infinite = true
					kind = "infinite"
				default:
					sl.Ponder = true
					sl.TimeControl = true
					sl.WhiteTime, sl.BlackTime = 200*time.Millisecond, 200*time.Millisecond
					kind = "ponder"
				}
				// a definite state before the start: either a search that can only end by a stop is
				// running (the start must be rejected), or nothing is running (it must be accepted)
				running := len(kinds) > 0 && (kinds[len(kinds)-1] == "infinite" || kinds[len(kinds)-1] == "ponder") && !stopIssued[len(stopIssued)-1]
				if !running {
					if !call("wait", func() { s.WaitWhileSearching() }) {
						break
					}
				}
				before := d.nResults()
				t0 := time.Now()
				if !call("start-"+kind, func() { s.StartSearch(*p, *sl) }) {
					break
				}
				if running {
					// rejected: must return promptly; the running search goes on undisturbed
					if time.Since(t0) > 2*time.Second {
						rep.Violate("start-while-running-blocks", in(), fmt.Sprintf("returned after %s", time.Since(t0)))
					}
					rep.Stats["starts_while_running"]++
					_ = before
				} else {
					accepted++
					kinds = append(kinds, kind)
					stopIssued = append(stopIssued, false)
					if (kind == "infinite" || kind == "ponder") && rng.Chance(40) {
						// the Hash option arrives during the search (size written, resize refused) and isready follows
						// while the same search is still running
						sleepShort()
						config.Settings.Search.TTSize = 1 + rng.Intn(4)
						if !call("resizehash", func() { s.ResizeCache() }) {
							break
						}
						if !call("isready", func() { s.IsReady() }) {
							break
						}
						rep.Stats["hash_size_changed_then_isready_during_search"]++
					}
				}
			case r < 12:
				if len(stopIssued) > 0 {
					stopIssued[len(stopIssued)-1] = true
				}
				call("stop", func() { s.StopSearch() })
			case r < 13:
				if len(stopIssued) > 0 && kinds[len(kinds)-1] == "ponder" {
					stopIssued[len(stopIssued)-1] = true
				}
				call("ponderhit", func() { s.PonderHit() })
			case r < 14:
				if len(stopIssued) > 0 {
					stopIssued[len(stopIssued)-1] = true
				}
				call("newgame", func() { s.NewGame() })
			case r < 15:
				call("clearhash", func() { s.ClearHash() })
			case r < 16:
				// as the handler of the Hash option does: the configured size is written first, then the resize is
				// requested (and refused while a search is running: configuration and table then differ)
				config.Settings.Search.TTSize = 1 + rng.Intn(4)
				call("resizehash", func() { s.ResizeCache() })
			case r < 17:
				call("isready", func() { s.IsReady() })
			case r < 18:
				call("issearching", func() { s.IsSearching() })
			default:
				// wait only when the current search ends by itself
				if len(kinds) == 0 || (kinds[len(kinds)-1] != "infinite" && kinds[len(kinds)-1] != "ponder") || stopIssued[len(stopIssued)-1] {
					call("wait", func() { s.WaitWhileSearching() })
				}
			}
			// isolation: an infinite/ponder search that has not been stopped must not have produced a result
			if len(kinds) > 0 && !bad {
				last := len(kinds) - 1
				if (kinds[last] == "infinite" || kinds[last] == "ponder") && !stopIssued[last] {
					time.Sleep(time.Duration(rng.Intn(12)) * time.Millisecond)
					if d.nResults() >= accepted {
						rep.Violate("search-ended-by-leftover-of-earlier-search", in(),
							fmt.Sprintf("%s search #%d delivered a result without stop/ponderhit", kinds[last], accepted))
						stopIssued[last] = true
					}
				}
			}
			sleepShort()
		}
		if bad {
			continue
		}
		if len(stopIssued) > 0 {
			stopIssued[len(stopIssued)-1] = true
		}
		if !call("final-stop", func() { s.StopSearch() }) {
			continue
		}
		d.waitResults(accepted)
		time.Sleep(3 * time.Millisecond)
		rep.Cases++
		rep.Stats["accepted_starts"] += accepted
		rep.Stats["calls"] += len(log)
		if got := d.nResults(); got != accepted {
			rep.Violate("results-do-not-match-starts", in(), fmt.Sprintf("%d accepted starts, %d results", accepted, got))
		}
		rep.Distinct++
		if storm == 0 {
			rep.Sample(map[string]interface{}{"calls": log})
		}
	}
	// the scenario of the stale timer: a finished timed search followed at once by an infinite one
	for k := 0; k < 15; k++ {
		s := search.NewSearch()
		d := &captureDriver{}
		s.SetUciHandler(d)
		p := position.NewPosition()
		sl := search.NewSearchLimits()
		sl.Depth, sl.TimeControl, sl.WhiteTime, sl.BlackTime = 1, true, 60*time.Second, 60*time.Second
		s.StartSearch(*p, *sl)
		s.WaitWhileSearching()
		d.waitResults(1)
		sl2 := search.NewSearchLimits()
		sl2.Infinite = true
		s.StartSearch(*p, *sl2)
		time.Sleep(60 * time.Millisecond)
		rep.Cases++
		if d.nResults() != 1 {
			rep.Violate("search-ended-by-leftover-of-earlier-search", map[string]interface{}{"scenario": "go depth 1 wtime 60000 btime 60000 ; go infinite"},
				fmt.Sprintf("%d results 60 ms after go infinite", d.nResults()))
		}
		s.StopSearch()
	}
	// searches whose time budget is zero still end: pondering without a clock is ended by ponderhit (the timer
	// fires at once), a move time equal to the safety margin ends by itself
	for k := 0; k < 6; k++ {
		s := search.NewSearch()
		d := &captureDriver{}
		s.SetUciHandler(d)
		p := position.NewPosition()
		sl := search.NewSearchLimits()
		what := ""
		switch k % 3 {
		case 0:
			sl.Ponder, sl.Depth = true, 1+rng.Intn(3)
			what = "go ponder depth N ; ponderhit"
		case 1:
			sl.Ponder, sl.Nodes = true, uint64(100+rng.Intn(2000))
			what = "go ponder nodes N ; ponderhit"
		default:
			sl.TimeControl, sl.MoveTime = true, time.Duration(18+rng.Intn(5))*time.Millisecond
			what = fmt.Sprintf("go movetime %d", sl.MoveTime.Milliseconds())
		}
		setCurrent(map[string]interface{}{"scenario": what})
		s.StartSearch(*p, *sl)
		if sl.Ponder {
			time.Sleep(time.Duration(rng.Intn(20)) * time.Millisecond)
			s.PonderHit()
		}
		rep.Cases++
		if d.waitResultsFor(1, 5*time.Second) != 1 {
			rep.Violate("search-never-delivers-its-result", map[string]interface{}{"scenario": what}, "no result within 5 s")
		}
		callWithWatchdog(wd, func() { s.StopSearch() })
	}
	// the next go arrives in answer to bestmove while the finished search is still inside the
	// (slow) result callback: the new search must not be ended by the clean-up of the old one
	for k := 0; k < 12; k++ {
		s := search.NewSearch()
		d := &slowDriver{signal: make(chan struct{}, 4), delay: time.Duration(2+rng.Intn(25)) * time.Millisecond}
		s.SetUciHandler(d)
		p := position.NewPosition()
		sl := search.NewSearchLimits()
		sl.Depth = 1 + rng.Intn(2)
		setCurrent(map[string]interface{}{"scenario": "go infinite issued from inside the bestmove callback of a depth search", "k": k})
		s.StartSearch(*p, *sl)
		select {
		case <-d.signal:
		case <-time.After(10 * time.Second):
			rep.Violate("lifecycle-call-hangs", map[string]interface{}{"scenario": "depth search never delivered a result"}, "")
			continue
		}
		// the result of search 1 is being written; answer it at once
		sl2 := search.NewSearchLimits()
		kind := "infinite"
		if k%3 == 2 {
			sl2.TimeControl, sl2.MoveTime = true, 400*time.Millisecond
			kind = "movetime 400"
		} else {
			sl2.Infinite = true
		}
		accepted := false
		for try := 0; try < 200 && !accepted; try++ { // StartSearch is rejected until the running state is released
			before := s.IsSearching()
			if !before {
				s.StartSearch(*p, *sl2)
				accepted = true
			} else {
				time.Sleep(100 * time.Microsecond)
			}
		}
		t0 := time.Now()
		time.Sleep(120 * time.Millisecond)
		rep.Cases++
		if n := d.nResults(); accepted && n != 1 {
			rep.Violate("search-ended-by-leftover-of-earlier-search", map[string]interface{}{"scenario": "go " + kind + " issued in answer to bestmove while the result callback of the finished search is still running", "callback_delay": d.delay.String()},
				fmt.Sprintf("%d results %s after the second start (expected only the first search's)", n, time.Since(t0)))
		}
		s.StopSearch()
		d.waitResults(2)
	}
	return rep.Emit()
}

// slowDriver: a result callback that signals the controller and then takes its time (a slow output pipe)
type slowDriver struct {
	captureDriver
	signal chan struct{}
	delay  time.Duration
}

func (d *slowDriver) SendResult(bestMove Move, ponderMove Move) {
	d.captureDriver.SendResult(bestMove, ponderMove)
	select {
	case d.signal <- struct{}{}:
	default:
	}
	time.Sleep(d.delay)
}

func init() { register("c14-monitor", c14Monitor) }
