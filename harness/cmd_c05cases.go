package main

import (
	"bufio"
	"fmt"
	"os"
	"strconv"
	"strings"
	"time"

	"github.com/frankkopp/FrankyGo/internal/evaluator"
	"github.com/frankkopp/FrankyGo/internal/movegen"
	"github.com/frankkopp/FrankyGo/internal/moveslice"
	"github.com/frankkopp/FrankyGo/internal/position"
	"github.com/frankkopp/FrankyGo/internal/search"
	. "github.com/frankkopp/FrankyGo/internal/types"
)

// c05-cases: the Go side of the C05 correspondence run (PvBuffers.Replay / CasesPv.v).
//
// For every case a REAL depth-D search of the engine is run in its minimal configuration
// (applySound(soundCfg{PVS: pvs}): hash table, hash move, all prunings, extensions, quiescence,
// MDP, IID, killers, history and counter moves, aspiration off; PVS on or off; book off) and
// Result.Pv, the PV of every SendIterationEndInfo and the best move are recorded. Independently
//   - the game tree to depth D is dumped (per node the moves of a fresh generator's
//     GetNextMove(GenAll, evasion = hasCheck) in delivery order, None = !WasLegalMove()),
//   - a reference alpha-beta (pvRef) that mirrors the control flow of iterativeDeepening /
//     rootSearch / search in that configuration derives the decision tables.
// What had to be mirrored:
//   - move order below the root: with the hash table and IID off ttMove stays MoveNone, so
//     SetPvMove is never called; with killers and history off the generators of s.mg[ply] deliver
//     exactly what a fresh on-demand generator delivers (staged, sorted per stage);
//   - root move order: iteration 1 walks GenerateLegalMoves (whole list sorted at once: not the
//     staged on-demand order of the tree); after every iteration the root moves carry the values
//     of that iteration (fail-soft bounds for moves refuted by the null window) and are sorted
//     by the engine's stable MoveSlice.Sort; a single root move ends the search after iteration 1;
//   - values: fail-soft alpha-beta, evaluation at depth 0 (quiescence off), mate -10000+ply,
//     stalemate 0, draw by repetition/50 moves 0 without a call, PVS null window (-alpha-1,-alpha)
//     for every move but the first LEGAL one (root: first root move) and the re-search when
//     alpha < value < beta;
//   - the same DoMove/UndoMove/Evaluate sequence as the engine (staticEval of nodes not in check).
// The model then replays the tables over the tree and must arrive at the PVs the engine reported.

type pvVisit struct {
	key  []int
	decs []int
}

type pvRootIter struct {
	depth int
	order []int // indices into the legal moves of the tree (tree order)
	decs  []int
	value Value
}

type pvRef struct {
	mg     []*movegen.Movegen
	eval   *evaluator.Evaluator
	pvs    bool
	key    []int
	visits []pvVisit
}

func newPvRef(pvs bool) *pvRef {
	r := &pvRef{eval: evaluator.NewEvaluator(), pvs: pvs}
	for i := 0; i < 8; i++ {
		r.mg = append(r.mg, movegen.NewMoveGen())
	}
	return r
}

const (
	pvDraw   = 1
	pvNullW  = 2
	pvSecond = 4
	pvBest   = 8
	pvAlpha  = 16
	pvBeta   = 32
)

// search mirrors alphabeta.go search() in the minimal configuration.
func (r *pvRef) search(p *position.Position, depth, ply int, alpha, beta Value) Value {
	if depth == 0 {
		return r.eval.Evaluate(p) // qsearch with quiescence off
	}
	hasCheck := p.HasCheck()
	if !hasCheck {
		r.eval.Evaluate(p) // staticEval (unused without prunings)
	}
	mg := r.mg[ply]
	mg.ResetOnDemand()
	vi := len(r.visits)
	r.visits = append(r.visits, pvVisit{key: append([]int{}, r.key...)})
	var decs []int
	best := ValueNA
	var value Value
	searched := 0
	for move := mg.GetNextMove(p, movegen.GenAll, hasCheck); move != MoveNone; move = mg.GetNextMove(p, movegen.GenAll, hasCheck) {
		idx := len(decs)
		p.DoMove(move)
		if !p.WasLegalMove() {
			p.UndoMove()
			decs = append(decs, 0)
			continue
		}
		code := 0
		if isDraw(p) {
			value = ValueDraw
			code |= pvDraw
		} else if !r.pvs || searched == 0 {
			r.key = append(r.key, 2*idx)
			value = -r.search(p, depth-1, ply+1, -beta, -alpha)
			r.key = r.key[:len(r.key)-1]
		} else {
			code |= pvNullW
			r.key = append(r.key, 2*idx)
			value = -r.search(p, depth-1, ply+1, -alpha-1, -alpha)
			r.key = r.key[:len(r.key)-1]
			if value > alpha && value < beta {
				code |= pvSecond
				r.key = append(r.key, 2*idx+1)
				value = -r.search(p, depth-1, ply+1, -beta, -alpha)
				r.key = r.key[:len(r.key)-1]
			}
		}
		searched++
		p.UndoMove()
		cut := false
		if value > alpha {
			code |= pvAlpha
		}
		if value >= beta {
			code |= pvBeta
		}
		if value > best {
			code |= pvBest
			best = value
			if value > alpha {
				if value >= beta {
					cut = true
				} else {
					alpha = value
				}
			}
		}
		decs = append(decs, code)
		if cut {
			break
		}
	}
	if searched == 0 {
		if p.HasCheck() {
			best = -ValueCheckMate + Value(ply)
		} else {
			best = ValueDraw
		}
	}
	r.visits[vi].decs = decs
	return best
}

// rootSearch mirrors alphabeta.go rootSearch(); the values are written into the root moves.
func (r *pvRef) rootSearch(p *position.Position, rootMoves *moveslice.MoveSlice, depth int, alpha, beta Value) ([]int, Value) {
	best := ValueNA
	var value Value
	var decs []int
	for i, m := range *rootMoves {
		p.DoMove(m)
		code := 0
		if isDraw(p) {
			value = ValueDraw
			code |= pvDraw
		} else if !r.pvs || i == 0 {
			r.key = []int{depth, 2 * i}
			value = -r.search(p, depth-1, 1, -beta, -alpha)
		} else {
			code |= pvNullW
			r.key = []int{depth, 2 * i}
			value = -r.search(p, depth-1, 1, -alpha-1, -alpha)
			if value > alpha && value < beta {
				code |= pvSecond
				r.key = []int{depth, 2*i + 1}
				value = -r.search(p, depth-1, 1, -beta, -alpha)
			}
		}
		p.UndoMove()
		rootMoves.Set(i, m.SetValue(value))
		if value > alpha {
			code |= pvAlpha
		}
		if value >= beta {
			code |= pvBeta
		}
		if value > best {
			code |= pvBest
			best = value
			if value > alpha {
				if value >= beta {
					decs = append(decs, code)
					return decs, best
				}
				alpha = best
			}
		}
		decs = append(decs, code)
	}
	return decs, best
}

// iterate mirrors search.go iterativeDeepening() for "go depth D" without any stop.
func (r *pvRef) iterate(p *position.Position, maxDepth int, treeLegal []Move) []pvRootIter {
	rootMoves := r.mg[0].GenerateLegalMoves(p, movegen.GenAll).Clone()
	var res []pvRootIter
	for d := 1; d <= maxDepth; d++ {
		order := make([]int, 0, len(*rootMoves))
		for _, m := range *rootMoves {
			at := -1
			for j, t := range treeLegal {
				if t.MoveOf() == m.MoveOf() {
					at = j
				}
			}
			order = append(order, at)
		}
		decs, v := r.rootSearch(p, rootMoves, d, ValueMin, ValueMax)
		res = append(res, pvRootIter{depth: d, order: order, decs: decs, value: v})
		if len(*rootMoves) > 1 {
			rootMoves.Sort()
		} else {
			break
		}
	}
	return res
}

// pvTree dumps the game tree in the compact constructors of CasesPv.v.
type pvTree struct {
	mg     []*movegen.Movegen
	budget int
}

func (t *pvTree) kids(sb *strings.Builder, p *position.Position, rem, ply int) []Move {
	var legal []Move
	hasCheck := p.HasCheck()
	mg := t.mg[ply]
	mg.ResetOnDemand()
	var moves []Move
	for m := mg.GetNextMove(p, movegen.GenAll, hasCheck); m != MoveNone; m = mg.GetNextMove(p, movegen.GenAll, hasCheck) {
		moves = append(moves, m)
	}
	sb.WriteString("[")
	for i, m := range moves {
		if i > 0 {
			sb.WriteString("; ")
		}
		t.budget--
		code := uint32(m.MoveOf())
		p.DoMove(m)
		if !p.WasLegalMove() {
			fmt.Fprintf(sb, "X %d", code)
		} else {
			legal = append(legal, m.MoveOf())
			chk := p.HasCheck()
			if rem-1 == 0 {
				if chk {
					fmt.Fprintf(sb, "C %d", code)
				} else {
					fmt.Fprintf(sb, "L %d", code)
				}
			} else {
				fmt.Fprintf(sb, "Nd %d %v ", code, chk)
				if t.budget > 0 {
					t.kids(sb, p, rem-1, ply+1)
				} else {
					sb.WriteString("[]")
				}
			}
		}
		p.UndoMove()
		if ply == 0 {
			sb.WriteString("\n  ")
		}
	}
	sb.WriteString("]")
	return legal
}

func natList(xs []int) string {
	var sb strings.Builder
	sb.WriteString("[")
	for i, x := range xs {
		if i > 0 {
			sb.WriteString(";")
		}
		sb.WriteString(strconv.Itoa(x))
	}
	sb.WriteString("]")
	return sb.String()
}

func nList(ms []Move) string {
	var sb strings.Builder
	sb.WriteString("[")
	for i, m := range ms {
		if i > 0 {
			sb.WriteString("; ")
		}
		fmt.Fprintf(&sb, "%d%%N", uint32(m.MoveOf()))
	}
	sb.WriteString("]")
	return sb.String()
}

func replayGame(g GamePos) *position.Position {
	p, _ := position.NewPositionFen(g.Root)
	for _, m := range g.Moves {
		p.DoMove(m)
	}
	return p
}

func sameMoves(a, b []Move) bool {
	if len(a) != len(b) {
		return false
	}
	for i := range a {
		if a[i].MoveOf() != b[i].MoveOf() {
			return false
		}
	}
	return true
}

// c05-cases <n> <seed> <out.v>
func c05Cases(args []string) int {
	if len(args) < 3 {
		fmt.Fprintln(os.Stderr, "c05-cases <n> <seed> <out.v>")
		return 2
	}
	n, _ := strconv.Atoi(args[0])
	seed, _ := strconv.ParseUint(args[1], 10, 64)
	f, err := os.Create(args[2])
	if err != nil {
		die(err)
	}
	defer f.Close()
	w := bufio.NewWriter(f)
	defer w.Flush()
	defer restoreDefaults()
	// NewRng(k+1) is the stream of NewRng(k) shifted by one draw (the state is a multiple of the
	// Weyl increment): consecutive seeds would give nearly (or exactly) the same cases. Scramble.
	rng := NewRng(seed*0xD1342543DE82EF95 + 0xC05)
	wk := NewWalker(rng)
	rep := NewReport("c05-cases")
	const nodeBudget = 4000

	usable := func(p *position.Position) bool {
		if isDraw(p) || phaseClampReachable(p) {
			return false
		}
		k := len(wk.legalMoves(p))
		return k >= 1 && k <= 30
	}
	var positions []GamePos
	// fixed corners: single root move, mate in the tree, stalemate in the tree, promotion, 50-move clock
	for _, fen := range []string{
		"7k/8/8/8/8/8/6PP/r5K1 w - - 0 1",
		"6k1/5ppp/8/8/8/8/5PPP/3R2K1 w - - 0 1",
		"7k/5Q2/6K1/8/8/8/8/8 w - - 0 1",
		"7k/8/5QK1/8/8/8/8/8 w - - 0 1",
		"8/8/8/8/8/k7/8/K6R w - - 97 80",
		"8/8/8/8/8/k7/8/K6R w - - 98 80",
		"k7/8/8/8/8/8/1p6/K7 w - - 0 1",
	} {
		if p, err := position.NewPositionFen(fen); err == nil && p != nil && usable(p) {
			positions = append(positions, GamePos{Root: fen, P: p})
		}
	}
	// histories with repetitions within reach of the search (about a fifth)
	for k := 0; k < n/5+1; k++ {
		if g, ok := wk.shuffleGame(); ok && usable(replayGame(g)) {
			positions = append(positions, GamePos{Root: g.Root, Moves: g.Moves})
		}
	}
	for tries := 0; len(positions) < n && tries < 40; tries++ {
		wk.Stream(n*4, false, func(g GamePos) {
			if len(positions) >= n {
				return
			}
			k := len(wk.legalMoves(g.P))
			// small move counts are rare in game positions: take them always, the others sometimes
			if k >= 1 && k <= 30 && (k <= 12 || rng.Chance(50)) && usable(replayGame(g)) {
				positions = append(positions, GamePos{Root: g.Root, Moves: append([]Move{}, g.Moves...)})
			}
		})
	}

	w.WriteString("(* GENERATED by verifh c05-cases: real depth-D searches in the minimal configuration *)\n")
	w.WriteString("From Coq Require Import List NArith Bool.\nFrom FG Require Import PvBuffers CasesPv.\nImport ListNotations.\n")
	w.WriteString("Definition cases : list case := [\n")
	ncases := 0
	for _, g := range positions {
		if ncases >= n {
			break
		}
		root := replayGame(g)
		fen := root.StringFen()
		pvs := rng.Bool()
		depth := 1 + rng.Intn(3)

		// the tree (own position object, own generators); shrink the depth until it fits
		var sb strings.Builder
		var treeLegal []Move
		for ; depth >= 1; depth-- {
			sb.Reset()
			t := &pvTree{budget: nodeBudget}
			for i := 0; i < 8; i++ {
				t.mg = append(t.mg, movegen.NewMoveGen())
			}
			tp := replayGame(g)
			treeLegal = t.kids(&sb, tp, depth, 0)
			if t.budget > 0 {
				break
			}
		}
		if depth < 1 {
			rep.Stats["skipped_tree_too_big"]++
			continue
		}
		in := map[string]interface{}{"root": g.Root, "moves": movesUci(g.Moves), "fen": fen, "depth": depth, "pvs": pvs, "case_index": ncases}
		setCurrent(in)

		// the real search
		applySound(soundCfg{PVS: pvs})
		s := search.NewSearch()
		d := &captureDriver{}
		s.SetUciHandler(d)
		sl := search.NewSearchLimits()
		sl.Depth = depth
		ep := replayGame(g)
		done := make(chan struct{})
		go func() {
			s.StartSearch(*ep, *sl)
			s.WaitWhileSearching()
			close(done)
		}()
		rep.Cases++
		select {
		case <-done:
		case <-time.After(120 * time.Second):
			rep.Violate("search-does-not-terminate", in, "no result after 120 s")
			continue
		}
		if d.waitResults(1) != 1 {
			rep.Violate("not-exactly-one-result", in, fmt.Sprintf("%d results", d.nResults()))
			continue
		}
		res := s.LastSearchResult()
		finalPv := make([]Move, len(res.Pv))
		copy(finalPv, res.Pv)
		d.mu.Lock()
		best := d.results[0][0]
		iterPvs := d.iterPvs
		iterValues := d.iterValue
		d.mu.Unlock()

		// the reference (own position object, own generators and evaluator)
		ref := newPvRef(pvs)
		iters := ref.iterate(replayGame(g), depth, treeLegal)

		// Go-side sanity of the reference: same iteration count and values as the engine reported
		okRef := true
		nrep := len(iters)
		if len(treeLegal) == 1 {
			nrep = 0
		}
		if len(iterValues) != nrep {
			okRef = false
		} else {
			for i := 0; i < nrep; i++ {
				if iterValues[i] != iters[i].value {
					okRef = false
				}
			}
		}
		if res.BestValue != iters[len(iters)-1].value {
			okRef = false
		}
		if !okRef {
			vals := []int{}
			for _, it := range iters {
				vals = append(vals, int(it.value))
			}
			rep.Violate("reference-value-differs", in, fmt.Sprintf("engine iteration values %v final %d, reference %v", iterValues, res.BestValue, vals))
		}
		for _, it := range iters {
			for _, o := range it.order {
				if o < 0 {
					rep.Violate("root-move-not-in-tree", in, "a move of GenerateLegalMoves is not delivered as legal by the on-demand generator")
				}
			}
		}

		// emit
		if ncases > 0 {
			w.WriteString(";\n")
		}
		fmt.Fprintf(w, "(* %d: %s | %s | depth %d pvs %v *)\n", ncases, g.Root, movesUci(g.Moves), depth, pvs)
		fmt.Fprintf(w, "mkCase (GNode %v %s)\n [", root.HasCheck(), sb.String())
		for i, v := range ref.visits {
			if i > 0 {
				w.WriteString(";")
				if i%8 == 0 {
					w.WriteString("\n  ")
				}
			}
			fmt.Fprintf(w, "(%s,%s)", natList(v.key), natList(v.decs))
		}
		w.WriteString("]\n [")
		for i, it := range iters {
			if i > 0 {
				w.WriteString(";\n  ")
			}
			fmt.Fprintf(w, "(%d,(%s,%s))", it.depth, natList(it.order), natList(it.decs))
		}
		fmt.Fprintf(w, "]\n %d %s [", depth, nList(finalPv))
		for i, pv := range iterPvs {
			if i > 0 {
				w.WriteString("; ")
			}
			w.WriteString(nList(pv))
		}
		fmt.Fprintf(w, "] %d", uint32(best.MoveOf()))
		ncases++

		rep.Distinct++
		rep.Stats[fmt.Sprintf("depth_%d", depth)]++
		rep.Stats[fmt.Sprintf("pvs_%v", pvs)]++
		rep.Stats["visits"] += len(ref.visits)
		if len(treeLegal) == 1 {
			rep.Stats["single_root_move"]++
		}
		if len(finalPv) < depth {
			rep.Stats["pv_shorter_than_depth"]++
		}
		for _, v := range ref.visits {
			for _, c := range v.decs {
				if c&pvSecond != 0 {
					rep.Stats["researches"]++
				}
				if c&pvDraw != 0 {
					rep.Stats["draw_children"]++
				}
				if c&pvBeta != 0 && c&pvBest != 0 {
					rep.Stats["beta_cuts"]++
				}
			}
		}
		for _, it := range iters {
			for _, c := range it.decs {
				if c&pvSecond != 0 {
					rep.Stats["root_researches"]++
				}
				if c&pvDraw != 0 {
					rep.Stats["draw_root_moves"]++
				}
			}
		}
		rootOrderChanged := false
		for i := 1; i < len(iters); i++ {
			if !sameInts(iters[i].order, iters[i-1].order) {
				rootOrderChanged = true
			}
		}
		if rootOrderChanged {
			rep.Stats["root_order_changed"]++
		}
		if len(iterPvs) > 0 && !sameMoves(iterPvs[len(iterPvs)-1], finalPv) {
			rep.Stats["final_pv_differs_from_last_iteration"]++
		}
		rep.Sample(map[string]interface{}{"fen": fen, "depth": depth, "pvs": pvs, "pv": res.Pv.StringUci(), "bestmove": best.StringUci()})
	}
	w.WriteString("\n].\nDefinition M := Eval vm_compute in (pv_mismatches cases).\nPrint M.\n")
	rep.Stats["cases_for_coq"] = ncases
	return rep.Emit()
}

func sameInts(a, b []int) bool {
	if len(a) != len(b) {
		return false
	}
	for i := range a {
		if a[i] != b[i] {
			return false
		}
	}
	return true
}

func init() { register("c05-cases", c05Cases) }
