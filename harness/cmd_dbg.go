package main

import (
	"github.com/frankkopp/FrankyGo/internal/config"
	"io/ioutil"
	"os"
	"path/filepath"
	"strings"

	"fmt"
	"github.com/frankkopp/FrankyGo/internal/openingbook"
	. "github.com/frankkopp/FrankyGo/internal/types"
	"strconv"
	"time"

	"github.com/frankkopp/FrankyGo/internal/movegen"
	"github.com/frankkopp/FrankyGo/internal/position"
	"github.com/frankkopp/FrankyGo/internal/search"
)

func dbgC06(args []string) int {
	fen := args[0]
	depth, _ := strconv.Atoi(args[1])
	ref := newRefSearch()
	p, _ := position.NewPositionFen(fen)
	rv, want := ref.rootValues(p, depth)
	fmt.Println("minimax", want)
	for m, v := range rv {
		if v >= want-10 {
			fmt.Println("  ", m.StringUci(), v)
		}
	}
	for _, bits := range []int{0, 127, 30, 2, 4, 8, 16, 1, 32, 64} {
		applySound(soundFromBits(bits, false))
		q, _ := position.NewPositionFen(fen)
		r, _, _ := runDepthSearch(q, depth, 60*time.Second)
		fmt.Println("bits", bits, "value", r.BestValue, r.BestMove.StringUci(), "pv", r.Pv.StringUci())
	}
	return 0
}

func init() { register("dbg-c06", dbgC06) }

func dbgC12(args []string) int {
	s := newUciSession()
	s.send("setoption name Use_SEE value true")
	c1 := s.configLines()
	s.send("setoption name Use_SEE value false")
	c2 := s.configLines()
	fmt.Println(c1["UseSEE"], c2["UseSEE"], len(c1), len(c2))
	s.mu.Lock()
	for _, l := range s.lines[:6] {
		fmt.Printf("%q\n", l)
	}
	s.mu.Unlock()
	return 0
}

func init() { register("dbg-c12", dbgC12) }

// dbg-moves <fen>: legal moves of a position (corpus authoring aid)
func dbgMoves(args []string) int {
	p, err := position.NewPositionFen(args[0])
	if err != nil || p == nil {
		fmt.Fprintln(realStdout, "rejected:", err)
		return 1
	}
	w := NewWalker(NewRng(1))
	fmt.Fprintln(realStdout, args[0], "check:", p.HasCheck(), "legal:", movesUci(w.legalMoves(p)))
	return 0
}
func init() { register("dbg-moves", dbgMoves) }

// dbg-od <fen> <pv uci>: on-demand drain with a PV move set
func dbgOd(args []string) int {
	p, err := position.NewPositionFen(args[0])
	if err != nil || p == nil {
		fmt.Fprintln(realStdout, "rejected:", err)
		return 1
	}
	w := NewWalker(NewRng(1))
	mg := movegen.NewMoveGen()
	for _, m := range *mg.GeneratePseudoLegalMoves(p, movegen.GenAll, false) {
		if m.StringUci() == args[1] {
			od := movegen.NewMoveGen()
			od.SetPvMove(m)
			var out []string
			for {
				x := od.GetNextMove(p, movegen.GenAll, false)
				if x == 0 || len(out) > 100 {
					break
				}
				out = append(out, x.StringUci())
			}
			fmt.Fprintln(realStdout, "pv", m.StringUci(), "drain:", out)
		}
	}
	_ = w
	return 0
}
func init() { register("dbg-od", dbgOd) }

// dbg-c06qs <fen> <depth>: root value with quiescence on under the sound switch vectors
func dbgC06qs(args []string) int {
	fen := args[0]
	depth, _ := strconv.Atoi(args[1])
	for _, bits := range []int{0, 127, 64, 63, 1, 2, 4, 8, 16, 32, 65, 80} {
		applySound(soundFromBits(bits, true))
		q, _ := position.NewPositionFen(fen)
		r, _, _ := runDepthSearch(q, depth, 300*time.Second)
		if r == nil {
			fmt.Fprintln(realStdout, "bits", bits, "slow")
			continue
		}
		fmt.Fprintln(realStdout, "bits", bits, "value", r.BestValue, r.BestMove.StringUci(), "pv", r.Pv.StringUci())
	}
	return 0
}
func init() { register("dbg-c06qs", dbgC06qs) }

// dbg-c06d <fen> <maxdepth> <qs 0|1>: root values per depth for switch vectors 0 and 8
func dbgC06d(args []string) int {
	fen := args[0]
	md, _ := strconv.Atoi(args[1])
	qs := args[2] == "1"
	for d := 1; d <= md; d++ {
		line := fmt.Sprintf("depth %d:", d)
		for _, bits := range []int{0, 8, 2, 64, 127} {
			applySound(soundFromBits(bits, qs))
			q, _ := position.NewPositionFen(fen)
			r, _, _ := runDepthSearch(q, d, 300*time.Second)
			if r == nil {
				line += " slow"
				continue
			}
			line += fmt.Sprintf("  [%d] %d %s", bits, r.BestValue, r.BestMove.StringUci())
		}
		fmt.Fprintln(realStdout, line)
	}
	return 0
}
func init() { register("dbg-c06d", dbgC06d) }

// dbg-diff <fen> <depth> <bitsA> <bitsB>: descends (quiescence on) to the smallest subtree whose root value differs
func dbgDiff(args []string) int {
	fen := args[0]
	depth, _ := strconv.Atoi(args[1])
	a, _ := strconv.Atoi(args[2])
	b, _ := strconv.Atoi(args[3])
	val := func(f string, d int, bits int) (int, string) {
		applySound(soundFromBits(bits, true))
		q, _ := position.NewPositionFen(f)
		r, _, _ := runDepthSearch(q, d, 300*time.Second)
		if r == nil {
			return -99999, "slow"
		}
		return int(r.BestValue), r.Pv.StringUci()
	}
	w := NewWalker(NewRng(1))
	for depth >= 1 {
		va, pa := val(fen, depth, a)
		vb, pb := val(fen, depth, b)
		fmt.Fprintf(realStdout, "node %s depth %d: A=%d (%s) B=%d (%s)\n", fen, depth, va, pa, vb, pb)
		if va == vb {
			fmt.Fprintln(realStdout, "no difference here")
			return 0
		}
		if depth == 1 {
			break
		}
		p, _ := position.NewPositionFen(fen)
		found := false
		for _, m := range w.legalMoves(p) {
			q := *p
			q.DoMove(m)
			cf := q.StringFen()
			ca, _ := val(cf, depth-1, a)
			cb, _ := val(cf, depth-1, b)
			if ca != cb {
				fmt.Fprintf(realStdout, "  child %s: A=%d B=%d\n", m.StringUci(), ca, cb)
				if !found {
					fen = cf
					found = true
				}
			}
		}
		if !found {
			fmt.Fprintln(realStdout, "no child differs as a root of its own: the difference arises at this node")
			return 0
		}
		depth--
	}
	return 0
}
func init() { register("dbg-diff", dbgDiff) }

// dbg-refq <fen> <depth>: reference minimax with quiescence
func dbgRefQ(args []string) int {
	depth, _ := strconv.Atoi(args[1])
	applySound(soundFromBits(0, true))
	p, _ := position.NewPositionFen(args[0])
	r := newRefSearch()
	t0 := time.Now()
	v := r.alphaBetaQ(p, depth, 0, -32000, 32000)
	fmt.Fprintln(realStdout, "reference (plain alpha-beta) value", v, "nodes", r.nodes, time.Since(t0))
	return 0
}
func init() { register("dbg-refq", dbgRefQ) }

// dbg-qsscan <n> <seed> <maxpieces>: small positions, engine (quiescence on, sound switch vectors) vs reference minimax+quiescence
func dbgQsScan(args []string) int {
	n, _ := strconv.Atoi(args[0])
	seed, _ := strconv.ParseUint(args[1], 10, 64)
	mp, _ := strconv.Atoi(args[2])
	rng := NewRng(seed)
	w := NewWalker(rng)
	bad := 0
	for i := 0; i < n; i++ {
		fen := w.randomPlacement(mp)
		p, _ := position.NewPositionFen(fen)
		if p == nil || len(w.legalMoves(p)) < 2 || isDraw(p) || phaseClampReachable(p) {
			continue
		}
		depth := 2 + rng.Intn(4)
		applySound(soundFromBits(0, true))
		r := newRefSearch()
		q, _ := position.NewPositionFen(fen)
		want := r.alphaBetaQ(q, depth, 0, -32000, 32000)
		line := ""
		differs := false
		for _, bits := range []int{0, 2, 8, 64, 127, 1} {
			applySound(soundFromBits(bits, true))
			q2, _ := position.NewPositionFen(fen)
			res, _, _ := runDepthSearch(q2, depth, 120*time.Second)
			if res == nil {
				continue
			}
			line += fmt.Sprintf(" [%d]=%d", bits, res.BestValue)
			if res.BestValue != want {
				differs = true
			}
		}
		if differs {
			bad++
			fmt.Fprintf(realStdout, "MISMATCH %s depth %d reference %d engine%s (ref nodes %d)\n", fen, depth, want, line, r.nodes)
		}
	}
	fmt.Fprintln(realStdout, "scanned", n, "mismatches", bad)
	return 0
}
func init() { register("dbg-qsscan", dbgQsScan) }

// dbg-qsscan2 <n> <seed> <maxdepth>: game positions, engine (quiescence on) vs alpha-beta reference
func dbgQsScan2(args []string) int {
	n, _ := strconv.Atoi(args[0])
	seed, _ := strconv.ParseUint(args[1], 10, 64)
	md, _ := strconv.Atoi(args[2])
	rng := NewRng(seed)
	w := NewWalker(rng)
	bad, cnt := 0, 0
	w.Stream(n*8, false, func(g GamePos) {
		if cnt >= n || !rng.Chance(12) {
			return
		}
		fen := g.P.StringFen()
		p, _ := position.NewPositionFen(fen)
		if p == nil || len(w.legalMoves(p)) < 2 || phaseClampReachable(p) || p.HalfMoveClock() > 80 {
			return
		}
		cnt++
		depth := 3 + rng.Intn(md-2)
		applySound(soundFromBits(0, true))
		r := newRefSearch()
		q, _ := position.NewPositionFen(fen)
		want := r.alphaBetaQ(q, depth, 0, -32000, 32000)
		line := ""
		differs := false
		for _, bits := range []int{0, 2, 8, 64, 127, 1} {
			applySound(soundFromBits(bits, true))
			q2, _ := position.NewPositionFen(fen)
			res, _, _ := runDepthSearch(q2, depth, 120*time.Second)
			if res == nil {
				continue
			}
			line += fmt.Sprintf(" [%d]=%d", bits, res.BestValue)
			if res.BestValue != want {
				differs = true
			}
		}
		if differs {
			bad++
			fmt.Fprintf(realStdout, "MISMATCH %s depth %d reference %d engine%s\n", fen, depth, want, line)
		}
	})
	fmt.Fprintln(realStdout, "scanned", cnt, "mismatches", bad)
	return 0
}
func init() { register("dbg-qsscan2", dbgQsScan2) }

// dbg-qsscan3 <n> <seed> <depth>: positions after 6-24 random plies from the start position
func dbgQsScan3(args []string) int {
	n, _ := strconv.Atoi(args[0])
	seed, _ := strconv.ParseUint(args[1], 10, 64)
	depth, _ := strconv.Atoi(args[2])
	rng := NewRng(seed)
	w := NewWalker(rng)
	bad := 0
	for i := 0; i < n; i++ {
		p := position.NewPosition()
		for k := 6 + rng.Intn(18); k > 0; k-- {
			lm := w.legalMoves(p)
			if len(lm) == 0 {
				break
			}
			p.DoMove(w.pick(p, lm))
		}
		fen := p.StringFen()
		q0, _ := position.NewPositionFen(fen)
		if q0 == nil || len(w.legalMoves(q0)) < 2 || phaseClampReachable(q0) {
			continue
		}
		applySound(soundFromBits(0, true))
		r := newRefSearch()
		want := r.alphaBetaQ(q0, depth, 0, -32000, 32000)
		line := ""
		differs := false
		for _, bits := range []int{0, 2, 8, 64, 127, 1} {
			applySound(soundFromBits(bits, true))
			q2, _ := position.NewPositionFen(fen)
			res, _, _ := runDepthSearch(q2, depth, 120*time.Second)
			if res == nil {
				continue
			}
			line += fmt.Sprintf(" [%d]=%d", bits, res.BestValue)
			if res.BestValue != want {
				differs = true
			}
		}
		if differs {
			bad++
			fmt.Fprintf(realStdout, "MISMATCH %s depth %d reference %d engine%s\n", fen, depth, want, line)
		}
	}
	fmt.Fprintln(realStdout, "scanned", n, "mismatches", bad)
	return 0
}
func init() { register("dbg-qsscan3", dbgQsScan3) }

// dbg-rootvals <fen> <depth> <bits> <qs>: value of every root move searched alone (searchmoves) and of the full search
func dbgRootVals(args []string) int {
	fen := args[0]
	depth, _ := strconv.Atoi(args[1])
	bits, _ := strconv.Atoi(args[2])
	qs := args[3] == "1"
	w := NewWalker(NewRng(1))
	p, _ := position.NewPositionFen(fen)
	for _, m := range w.legalMoves(p) {
		applySound(soundFromBits(bits, qs))
		s := search.NewSearch()
		d := &captureDriver{}
		s.SetUciHandler(d)
		sl := search.NewSearchLimits()
		sl.Depth = depth
		sl.Moves.PushBack(m)
		q, _ := position.NewPositionFen(fen)
		s.StartSearch(*q, *sl)
		s.WaitWhileSearching()
		r := s.LastSearchResult()
		fmt.Fprintf(realStdout, "%s=%d ", m.StringUci(), r.BestValue)
	}
	fmt.Fprintln(realStdout)
	return 0
}
func init() { register("dbg-rootvals", dbgRootVals) }

// dbg-book <file> : builds a Simple-format book line by line and reports which line adds a position an independent replay does not
func dbgBook(args []string) int {
	data, _ := ioutil.ReadFile(args[0])
	lines := strings.Split(strings.TrimRight(string(data), "\n"), "\n")
	dir, _ := ioutil.TempDir("", "dbgbook")
	defer os.RemoveAll(dir)
	for i, l := range lines {
		ioutil.WriteFile(filepath.Join(dir, "one.txt"), []byte(l+"\n"), 0644)
		b, err, hung := buildBook(dir, "one.txt", openingbook.Simple, false)
		if err != nil || hung {
			fmt.Fprintln(realStdout, "line", i, "error", err, hung)
			continue
		}
		// independent replay: greedy tokenisation against the legal moves
		pos := position.NewPosition()
		keys := map[uint64]bool{uint64(pos.ZobristKey()): true}
		w := NewWalker(NewRng(1))
		t := strings.ReplaceAll(l, " ", "")
		for j := 0; j+4 <= len(t); {
			var mv Move
			n := 0
			for _, ln := range []int{5, 4} {
				if j+ln > len(t) {
					continue
				}
				for _, x := range w.legalMoves(pos) {
					if strings.EqualFold(x.StringUci(), t[j:j+ln]) {
						mv, n = x, ln
					}
				}
				if n > 0 {
					break
				}
			}
			if n == 0 {
				break
			}
			pos.DoMove(mv)
			keys[uint64(pos.ZobristKey())] = true
			j += n
		}
		mark := ""
		if len(keys) != len(b.VerifEntries()) {
			mark = "  <<<<<< independent replay: " + strconv.Itoa(len(keys))
		}
		fmt.Fprintf(realStdout, "line %d: %d entries%s : %s\n", i, len(b.VerifEntries()), mark, l)
	}
	return 0
}
func init() { register("dbg-book", dbgBook) }

func dbgMinorMate(args []string) int {
	rng := NewRng(7)
	wk := NewWalker(rng)
	t := time.Now()
	for i := 0; i < 10; i++ {
		fmt.Fprintln(realStdout, wk.minorPieceMate())
	}
	fmt.Fprintln(realStdout, time.Since(t))
	return 0
}
func init() { register("dbg-minormate", dbgMinorMate) }

// dbg-treelegal <fen> <depth>: default configuration search; every counted move checked for legality
func dbgTreeLegal(args []string) int {
	fen := args[0]
	depth, _ := strconv.Atoi(args[1])
	restoreDefaults()
	config.Settings.Search.UseBook = false
	config.Settings.Search.TTSize = 2
	mgL := movegen.NewMoveGen()
	bad, seen := 0, 0
	search.VerifLoopHook = func(fn int, p *position.Position, ply int, ev int, a int, b int) {
		if ev != 4 || a == 0 {
			return
		}
		seen++
		fresh, _ := position.NewPositionFen(p.StringFen())
		ok := false
		for _, lm := range *mgL.GenerateLegalMoves(fresh, movegen.GenAll) {
			if lm.MoveOf() == Move(a).MoveOf() {
				ok = true
			}
		}
		if !ok {
			bad++
			if bad < 4 {
				fmt.Fprintln(realStdout, "ILLEGAL", p.StringFen(), Move(a).StringUci(), "fn", fn, "ply", ply)
			}
		}
	}
	p, _ := position.NewPositionFen(fen)
	r, _, _ := runDepthSearch(p, depth, 60*time.Second)
	fmt.Fprintln(realStdout, "counted", seen, "illegal", bad, "value", r.BestValue, "best", r.BestMove.StringUci())
	return 0
}
func init() { register("dbg-treelegal", dbgTreeLegal) }
