package main

import (
	"fmt"
	"strconv"
	"time"

	"github.com/frankkopp/FrankyGo/internal/movegen"
	"github.com/frankkopp/FrankyGo/internal/position"
)

func dbgC06(args []string) int {
	fen := args[0]
	depth, _ := strconv.Atoi(args[1])
	ref := newRefSearch()
	p, _ := position.NewPositionFen(fen)
	rv, want := ref.rootValues(p, depth)
	fmt.Println("minimax", want)
	for m, v := range rv {
		if v >= want-10 {
			fmt.Println("  ", m.StringUci(), v)
		}
	}
	for _, bits := range []int{0, 127, 30, 2, 4, 8, 16, 1, 32, 64} {
		applySound(soundFromBits(bits, false))
		q, _ := position.NewPositionFen(fen)
		r, _, _ := runDepthSearch(q, depth, 60*time.Second)
		fmt.Println("bits", bits, "value", r.BestValue, r.BestMove.StringUci(), "pv", r.Pv.StringUci())
	}
	return 0
}

func init() { register("dbg-c06", dbgC06) }

func dbgC12(args []string) int {
	s := newUciSession()
	s.send("setoption name Use_SEE value true")
	c1 := s.configLines()
	s.send("setoption name Use_SEE value false")
	c2 := s.configLines()
	fmt.Println(c1["UseSEE"], c2["UseSEE"], len(c1), len(c2))
	s.mu.Lock()
	for _, l := range s.lines[:6] {
		fmt.Printf("%q\n", l)
	}
	s.mu.Unlock()
	return 0
}

func init() { register("dbg-c12", dbgC12) }

// dbg-moves <fen>: legal moves of a position (corpus authoring aid)
func dbgMoves(args []string) int {
	p, err := position.NewPositionFen(args[0])
	if err != nil || p == nil {
		fmt.Fprintln(realStdout, "rejected:", err)
		return 1
	}
	w := NewWalker(NewRng(1))
	fmt.Fprintln(realStdout, args[0], "check:", p.HasCheck(), "legal:", movesUci(w.legalMoves(p)))
	return 0
}
func init() { register("dbg-moves", dbgMoves) }

// dbg-od <fen> <pv uci>: on-demand drain with a PV move set
func dbgOd(args []string) int {
	p, err := position.NewPositionFen(args[0])
	if err != nil || p == nil {
		fmt.Fprintln(realStdout, "rejected:", err)
		return 1
	}
	w := NewWalker(NewRng(1))
	mg := movegen.NewMoveGen()
	for _, m := range *mg.GeneratePseudoLegalMoves(p, movegen.GenAll, false) {
		if m.StringUci() == args[1] {
			od := movegen.NewMoveGen()
			od.SetPvMove(m)
			var out []string
			for {
				x := od.GetNextMove(p, movegen.GenAll, false)
				if x == 0 || len(out) > 100 {
					break
				}
				out = append(out, x.StringUci())
			}
			fmt.Fprintln(realStdout, "pv", m.StringUci(), "drain:", out)
		}
	}
	_ = w
	return 0
}
func init() { register("dbg-od", dbgOd) }
