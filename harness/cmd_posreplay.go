package main

import (
	"encoding/json"
	"fmt"
	"io/ioutil"
	"strconv"
	"strings"

	"github.com/frankkopp/FrankyGo/internal/position"
	. "github.com/frankkopp/FrankyGo/internal/types"
)

// pos-replay <cases.json> <index>: the operation sequence of one pos-cases case (one on which the position
// model and the engine disagreed) is run again on a real Position, and the properties themselves are checked
// at every step: incremental state vs a position fresh from the FEN (C04), every undo restores what was there
// before the matching do (C03), the cached in-check answer vs IsAttacked(king) (C09), the successor of a move vs
// the successor on a fresh position (C02).
func posReplay(args []string) int {
	rep := NewReport("pos-replay")
	raw, err := ioutil.ReadFile(args[0])
	if err != nil {
		die(err)
	}
	var cases []struct {
		Fen string   `json:"fen"`
		Ops []string `json:"ops"`
	}
	if err := json.Unmarshal(raw, &cases); err != nil {
		die(err)
	}
	idx, _ := strconv.Atoi(args[1])
	if idx < 0 || idx >= len(cases) {
		return rep.Emit()
	}
	c := cases[idx]
	p, err := position.NewPositionFen(c.Fen)
	if err != nil || p == nil {
		return rep.Emit()
	}
	in := func(k int) map[string]interface{} {
		return map[string]interface{}{"fen": c.Fen, "ops": strings.Join(c.Ops[:k+1], "; "), "position_after": p.StringFen(), "found_by": "replay of a case on which model and engine disagree"}
	}
	var stack []snapshot
	for k, op := range c.Ops {
		rep.Cases++
		f := strings.Fields(op)
		switch f[0] {
		case "OSetFlag":
			p.HasCheck()
		case "ODo":
			mv, _ := strconv.ParseUint(f[1], 10, 32)
			stack = append(stack, snap(p, nil, true))
			fr, _ := position.NewPositionFen(p.StringFen())
			p.DoMove(Move(mv))
			if fr != nil {
				fr.DoMove(Move(mv))
				if fr.StringFen() != p.StringFen() || fr.ZobristKey() != p.ZobristKey() {
					rep.Violate("long-game-successor-wrong", in(k), "on the played position: "+p.StringFen()+" ; the same move on a fresh position: "+fr.StringFen())
				}
			}
		case "ODoNull":
			stack = append(stack, snap(p, nil, true))
			p.DoNullMove()
		case "OUndo", "OUndoNull":
			if f[0] == "OUndo" {
				p.UndoMove()
			} else {
				p.UndoNullMove()
			}
			if len(stack) > 0 {
				before := stack[len(stack)-1]
				stack = stack[:len(stack)-1]
				if d := before.diff(snap(p, nil, true)); len(d) > 0 {
					v := in(k)
					v["fields"] = diffKeys(d)
					v["phase_clamp_reachable"] = phaseClampReachable(p)
					rep.Violate("undo-does-not-restore", v, fmt.Sprint(d))
				}
			}
		}
		// incremental vs fresh
		if fr, err := position.NewPositionFen(p.StringFen()); err == nil && fr != nil {
			if d := snap(p, nil, false).diff(snap(fr, nil, false)); len(d) > 0 {
				v := in(k)
				v["fields"] = diffKeys(d)
				v["phase_clamp_reachable"] = phaseClampReachable(p) || phaseClampReachable(fr)
				rep.Violate("incremental-differs-from-fresh", v, fmt.Sprint(d))
			}
		} else {
			rep.Violate("own-fen-rejected", in(k), p.StringFen())
		}
		if us := p.NextPlayer(); p.PiecesBb(us, King) != 0 && p.HasCheck() != p.IsAttacked(p.KingSquare(us), us.Flip()) {
			rep.Violate("check-cache-stale", in(k), "HasCheck() disagrees with IsAttacked(king)")
		}
	}
	return rep.Emit()
}

func init() { register("pos-replay", posReplay) }
