package main

import (
	"encoding/json"
	"fmt"
	"io/ioutil"
	"os"
	"sort"
)

// PRNG: splitmix64 — every random choice of the harness derives from one seed.
type Rng struct{ s uint64 }

// The seed is scrambled (splitmix64 finaliser) before use: the generator's state advances by a
// fixed increment, so unscrambled neighbouring seeds would yield the same stream shifted by one draw.
func NewRng(seed uint64) *Rng {
	z := seed + 0x9E3779B97F4A7C15
	z = (z ^ (z >> 30)) * 0xBF58476D1CE4E5B9
	z = (z ^ (z >> 27)) * 0x94D049BB133111EB
	z ^= z >> 31
	return &Rng{s: z}
}
func (r *Rng) U64() uint64 {
	r.s += 0x9E3779B97F4A7C15
	z := r.s
	z = (z ^ (z >> 30)) * 0xBF58476D1CE4E5B9
	z = (z ^ (z >> 27)) * 0x94D049BB133111EB
	return z ^ (z >> 31)
}
func (r *Rng) Intn(n int) int {
	if n <= 0 {
		return 0
	}
	return int(r.U64() % uint64(n))
}
func (r *Rng) Bool() bool        { return r.U64()&1 == 1 }
func (r *Rng) Chance(p int) bool { return r.Intn(100) < p } // p percent

// Report is what every harness sub-command prints as its last stdout line (JSON).
type Report struct {
	Command    string                 `json:"command"`
	Cases      int                    `json:"cases"`
	Distinct   int                    `json:"distinct"`
	Violations []Violation            `json:"violations"`
	Stats      map[string]int         `json:"stats"`
	Samples    []interface{}          `json:"samples"`
	Extra      map[string]interface{} `json:"extra,omitempty"`
}

type Violation struct {
	Kind   string                 `json:"kind"`   // stable label, e.g. "movegen-missing-move"
	Input  map[string]interface{} `json:"input"`  // canonical failing input (FEN, moves, ops, ...)
	Detail string                 `json:"detail"` // human readable
}

// lastReport and lastInput let a watchdog deep inside a helper end the run with a proper report
var lastReport *Report
var lastInput map[string]interface{}

func NewReport(cmd string) *Report {
	lastReport = &Report{Command: cmd, Stats: map[string]int{}, Violations: []Violation{}, Samples: []interface{}{}, Extra: map[string]interface{}{}}
	return lastReport
}

const maxViolations = 25

func (r *Report) Violate(kind string, input map[string]interface{}, detail string) {
	// the cap is per kind: violations of one kind (e.g. a known finding that shows on many inputs)
	// must not crowd out another kind
	if r.Stats["violations_kind_"+kind] < maxViolations {
		r.Violations = append(r.Violations, Violation{Kind: kind, Input: input, Detail: detail})
	}
	r.Stats["violations_kind_"+kind]++
	r.Stats["violations_total"]++
}

func (r *Report) Sample(s interface{}) {
	if len(r.Samples) < 5 {
		r.Samples = append(r.Samples, s)
	}
}

// realStdout is where the harness reports; os.Stdout itself is redirected to /dev/null in main
// because parts of the engine (UCI log, perft) print to it unconditionally.
var realStdout = os.Stdout

func (r *Report) Emit() int {
	b, _ := json.Marshal(r)
	fmt.Fprintln(realStdout, "REPORT "+string(b))
	if len(r.Violations) > 0 {
		return 1
	}
	return 0
}

func sortedU16(xs []uint16) []uint16 {
	sort.Slice(xs, func(i, j int) bool { return xs[i] < xs[j] })
	return xs
}

func die(err error) {
	fmt.Fprintln(os.Stderr, err)
	os.Exit(2)
}

// setCurrent records the input a monitor is about to hand to the engine (file named by
// VERIF_CURRENT): when an engine goroutine panics the process dies, and the driver reports this
// input as the failing one.
func setCurrent(in map[string]interface{}) {
	lastInput = in
	path := os.Getenv("VERIF_CURRENT")
	if path == "" {
		return
	}
	if b, err := json.Marshal(in); err == nil {
		_ = ioutil.WriteFile(path, b, 0644)
	}
}
