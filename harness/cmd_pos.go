package main

import (
	"bufio"
	"fmt"
	"os"
	"sort"
	"strconv"
	"strings"

	"github.com/frankkopp/FrankyGo/internal/attacks"
	"github.com/frankkopp/FrankyGo/internal/movegen"
	"github.com/frankkopp/FrankyGo/internal/position"
	. "github.com/frankkopp/FrankyGo/internal/types"
)

func codesOf(ms []Move) []int {
	r := make([]int, len(ms))
	for i, m := range ms {
		r[i] = int(m.MoveOf())
	}
	sort.Ints(r)
	return r
}

func joinInts(xs []int) string {
	var sb strings.Builder
	for i, x := range xs {
		if i > 0 {
			sb.WriteByte(',')
		}
		sb.WriteString(strconv.Itoa(x))
	}
	return sb.String()
}

func safeBool(f func() bool) (res bool, panicked bool) {
	defer func() {
		if r := recover(); r != nil {
			panicked = true
		}
	}()
	return f(), false
}

// pos-stream <n> <seed> <out> [corpus=1]: observations of the real engine, one POS line per
// position, for the extracted rules oracle (C01, C02, C08 part, C09).
func posStream(args []string) int {
	if len(args) < 3 {
		fmt.Fprintln(os.Stderr, "pos-stream <n> <seed> <out> [corpus]")
		return 2
	}
	n, _ := strconv.Atoi(args[0])
	seed, _ := strconv.ParseUint(args[1], 10, 64)
	f, err := os.Create(args[2])
	if err != nil {
		die(err)
	}
	defer f.Close()
	out := bufio.NewWriterSize(f, 1<<20)
	defer out.Flush()
	withCorpus := len(args) > 3 && args[3] == "1"
	rng := NewRng(seed)
	w := NewWalker(rng)
	mg := movegen.NewMoveGen()
	rep := NewReport("pos-stream")
	seen := map[uint64]bool{}
	perftBudget := 6
	devnull, _ := os.Open(os.DevNull)
	w.Stream(n, withCorpus, func(g GamePos) {
		p := g.P
		fen := p.StringFen()
		// a position set up from a FEN is compared with the specification's reading of THAT text: when the engine
		// prints other placement / side / castling / en-passant fields than it was given, the given text is what
		// the specification parses (a set-up that silently drops a right or a square shows as a different move list)
		if len(g.Moves) == 0 && g.Root != "" {
			a, b := strings.Fields(g.Root), strings.Fields(fen)
			if len(a) >= 4 && len(b) >= 4 && strings.Join(a[:4], " ") != strings.Join(b[:4], " ") {
				fen = g.Root
				rep.Stats["fen_set_up_differs_from_the_text_given"]++
			}
		}
		rep.Cases++
		if !seen[uint64(p.ZobristKey())] {
			seen[uint64(p.ZobristKey())] = true
			rep.Distinct++
		}
		legal := w.legalMoves(p)
		pl := mg.GeneratePseudoLegalMoves(p, movegen.GenAll, false)
		pseudo := make([]Move, len(*pl))
		copy(pseudo, *pl)
		check := p.HasCheck()
		var aw, ab strings.Builder
		panicIsAttacked := false
		for c := White; c <= Black; c++ {
			for sq := SqA1; sq < SqNone; sq++ {
				r, pan := safeBool(func() bool { return p.IsAttacked(sq, c) })
				if pan {
					panicIsAttacked = true
					rep.Violate("is-attacked-panic", map[string]interface{}{"fen": fen, "square": sq.String(), "by": c.String()},
						"IsAttacked panicked")
				}
				b := byte('0')
				if r {
					b = '1'
				}
				if c == White {
					aw.WriteByte(b)
				} else {
					ab.WriteByte(b)
				}
			}
		}
		_ = panicIsAttacked
		hl := mg.HasLegalMove(p)
		// per pseudo-legal move
		var mvs []string
		legalSet := map[Move]bool{}
		for _, m := range legal {
			legalSet[m.MoveOf()] = true
		}
		for _, m := range pseudo {
			gc := p.GivesCheck(m)
			lpre := p.IsLegalMove(m)
			p.DoMove(m)
			lpost := p.WasLegalMove()
			after := ""
			if lpost {
				after = p.StringFen()
			}
			p.UndoMove()
			// the predicates must not depend on what was asked before: the same questions on a position
			// fresh from the FEN on which nothing (not even the in-check test) has been evaluated yet
			if fr, err := position.NewPositionFen(fen); err == nil && fr != nil && (m.MoveType() != Normal || rng.Chance(15)) {
				gc2 := fr.GivesCheck(m)
				fr.DoMove(m)
				lpost2 := fr.WasLegalMove()
				fr.UndoMove()
				lpre2 := fr.IsLegalMove(m)
				if gc2 != gc || lpost2 != lpost || lpre2 != lpre {
					rep.Violate("predicate-depends-on-call-order", map[string]interface{}{"fen": fen, "move": m.StringUci()},
						fmt.Sprintf("after HasCheck()/generation: givesCheck=%v legalPre=%v legalPost=%v ; on a fresh position: givesCheck=%v legalPre=%v legalPost=%v", gc, lpre, lpost, gc2, lpre2, lpost2))
				}
			}
			mvs = append(mvs, fmt.Sprintf("%d:%s:%s:%s:%s", int(m.MoveOf()), b01(gc), b01(lpre), b01(lpost), after))
			switch m.MoveType() {
			case Castling:
				rep.Stats["moves_castling"]++
			case EnPassant:
				rep.Stats["moves_enpassant"]++
			case Promotion:
				rep.Stats["moves_promotion"]++
			}
		}
		rep.Stats["moves_pseudo"] += len(pseudo)
		rep.Stats["moves_legal"] += len(legal)
		if check {
			rep.Stats["positions_in_check"]++
		}
		if len(legal) == 0 {
			rep.Stats["positions_terminal"]++
		}
		if p.GetEnPassantSquare() != SqNone {
			rep.Stats["positions_with_ep"]++
		}
		if p.CastlingRights() != CastlingNone {
			rep.Stats["positions_with_rights"]++
		}
		// attackers samples: king squares, ep square, 4 random squares
		var atts []string
		sqs := []Square{p.KingSquare(White), p.KingSquare(Black)}
		if p.GetEnPassantSquare() != SqNone {
			sqs = append(sqs, p.GetEnPassantSquare())
		}
		for i := 0; i < 4; i++ {
			sqs = append(sqs, Square(rng.Intn(64)))
		}
		for _, sq := range sqs {
			for c := White; c <= Black; c++ {
				atts = append(atts, fmt.Sprintf("%d:%d:%d", int(sq), int(c), uint64(attacks.AttacksTo(p, sq, c))))
			}
		}
		fmt.Fprintf(out, "POS|%s|%s|%s|%s|%s|%s|%s|%s|%s\n", fen, joinInts(codesOf(legal)), joinInts(codesOf(pseudo)),
			b01(check), aw.String(), ab.String(), b01(hl), strings.Join(mvs, ";"), strings.Join(atts, ";"))
		rep.Sample(map[string]interface{}{"fen": fen, "legal_moves": len(legal), "root": g.Root, "history": movesUci(g.Moves)})
		// engine perft (both modes) on a few small positions
		if perftBudget > 0 && len(legal) > 0 && len(legal) < 25 && rng.Chance(20) {
			perftBudget--
			d := 2
			if len(legal) < 12 {
				d = 3
			}
			// one long-lived Perft object, as the UCI perft command uses it: the same position at the same
			// depth twice, a shallower run in between, both generation modes
			if sharedPerft == nil {
				sharedPerft = movegen.NewPerft()
			}
			for _, run := range []struct {
				d  int
				od bool
			}{{d, false}, {d, true}, {d, true}, {d - 1, true}, {d, true}, {d, false}} {
				saved := os.Stdout
				os.Stdout = devnull
				sharedPerft.StartPerft(fen, run.d, run.od)
				os.Stdout = saved
				fmt.Fprintf(out, "PERFT|%s|%d|%d\n", fen, run.d, sharedPerft.Nodes)
				rep.Stats["perft_runs"]++
			}
		}
	})
	_ = position.StartFen
	return rep.Emit()
}

var sharedPerft *movegen.Perft

func b01(b bool) string {
	if b {
		return "1"
	}
	return "0"
}

func init() { register("pos-stream", posStream) }
