"""C15 — static evaluation is pure, colour-symmetric and zero for dead material."""
import generic as G
PID = "C15"


def check(tier, seed):
    q = tier == "quick"
    return G.generic_check(PID, "proof", tier, seed, coq=True,
        rule='obligations: theorems of coq/properties/C15.v over EvalImpl.v (mirror symmetry for every settings record, dead material = 0, state independence); correspondence: Evaluate on fresh positions and their mirrors under the 32 combinations of the five evaluation switches (Eval_Lazy, Eval_AdvPiece, UseAttacksInEval, Eval_Mobility, UseKingEval; 8 vectors per position, round-robin over a shuffled list) evaluated bit-exactly by the Coq model (c15-cases, EvalImpl.eval_case_full through the tabulated form CasesModels.eval_case), and every field of config.Settings.Eval as found at start-up compared with EvalImpl.default_cfg (marker D = []); monitor: positions of random games and random placements (fresh from FEN): Evaluate repeated, on a second evaluator, after evaluating other positions, after do/undo excursions; vs the colour-mirrored position; 0 when HasInsufficientMaterial; position unchanged; under the 32 combinations of the five evaluation switches; a case = one position',
        streams=[dict(name="eval_model_vs_engine", kind="coqcases", shards=lambda t: 4 if t == "quick" else 16,
                      args=lambda t, s, sh, path: ["c15-cases", 100 if t == "quick" else 600, s * 1000 + 300 + sh, path, 8], coq_timeout=3000,
                      ok_markers=["M = []", "D = []"]),
                 dict(name='evaluation_monitor', kind="monitor", shards=lambda t: 4 if t == "quick" else 16,
                      args=lambda t, s, sh, path: ['c15-monitor', 2500 if t == "quick" else 60000, s * 1000 + sh])])


def replay(path):
    return G.generic_replay(PID, path)
