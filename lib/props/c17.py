"""C17 — move notation and move encoding round-trip losslessly."""
import generic as G
PID = "C17"


def check(tier, seed):
    q = tier == "quick"
    return G.generic_check(PID, "proof", tier, seed, coq=True,
        rule="obligations: theorems of coq/properties/C17.v (encoding for all field combinations and all int16 values; UCI/SAN round trips, exact accepted language, strictness for all strings); correspondence: the real encoding functions and the real UCI/SAN parsers on legal moves, loose spellings and junk strings evaluated by the Coq models (c17-cases); monitor: packed encoding: all 65,536 (from,to,type,promotion) combinations x 12 boundary/sampled sort values through CreateMove/CreateMoveValue/SetValue and every getter; notation: for every legal move of generated positions StringUci -> GetMoveFromUci, reference SAN (minimal and over-disambiguated, capture/promotion with and without '=', random check/annotation suffixes) -> GetMoveFromSan; random non-moves -> MoveNone; SAN with the needed disambiguation removed -> MoveNone; a case = one code/value pair or one move string",
        streams=[dict(name="encoding_and_parsers_model_vs_engine", kind="coqcases", shards=lambda t: 2 if t == "quick" else 16,
                      args=lambda t, s, sh, path: ["c17-cases", 100 if t == "quick" else 400, s * 1000 + 300 + sh, path], coq_timeout=3000, ok_markers=["M = []", "MN = []"]),
                 dict(name='notation_monitor', kind="monitor", shards=lambda t: 4 if t == "quick" else 16,
                      args=lambda t, s, sh, path: ['c17-monitor', 400 if t == "quick" else 20000, s * 1000 + sh])])


def replay(path):
    return G.generic_replay(PID, path)
