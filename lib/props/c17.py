"""C17 — move notation and move encoding round-trip losslessly."""
import generic as G
PID = "C17"


def check(tier, seed):
    q = tier == "quick"
    return G.generic_check(PID, "exploration", tier, seed, coq=False,
        rule="packed encoding: all 65,536 (from,to,type,promotion) combinations x 12 boundary/sampled sort values through CreateMove/CreateMoveValue/SetValue and every getter; notation: for every legal move of generated positions StringUci -> GetMoveFromUci, reference SAN (minimal and over-disambiguated, capture/promotion with and without '=', random check/annotation suffixes) -> GetMoveFromSan; random non-moves -> MoveNone; SAN with the needed disambiguation removed -> MoveNone; a case = one code/value pair or one move string",
        streams=[dict(name='notation_monitor', kind="monitor", shards=lambda t: 4 if t == "quick" else 16,
                      args=lambda t, s, sh, path: ['c17-monitor', 400 if t == "quick" else 20000, s * 1000 + sh])])


def replay(path):
    return G.generic_replay(PID, path)
