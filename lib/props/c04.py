"""C04 — incremental state equals recomputed state; hash key is a function of position."""
import generic as G
PID = "C04"


def check(tier, seed):
    q = tier == "quick"
    return G.generic_check(PID, "proof", tier, seed, coq=True,
        rule="obligations: theorems of coq/properties/C04.v over PosImpl.v; correspondence: operation sequences on the real Position vs PosImpl.run_ops evaluated inside Coq, 105 observables (incl. key, piece sets, material, psq sums, game phase, check cache, repetition 1-3, insufficient material) after every operation (pos-cases); monitor: random games (corpus incl. FENs with en-passant squares and without castling field + random placements); after every move all incremental getters are compared with a fresh position built from the current FEN and with sums of the published per-piece values over the board; the key is checked to be a function of (placement, side, rights, ep) across all positions seen in the run (different histories, FEN vs play) and different positions to have different keys; distinct = distinct Zobrist keys",
        streams=[dict(name="position_model_vs_engine", kind="coqprint", shards=lambda t: 4 if t == "quick" else 16,
                      args=lambda t, s, sh, path: ["pos-cases", 14 if t == "quick" else 60, s * 1000 + 700 + sh, path], coq_timeout=3000, replay_kinds=['incremental-differs-from-fresh', 'own-fen-rejected']),
                 dict(name="incremental_monitor", kind="monitor", shards=lambda t: 8,
                      args=lambda t, s, sh, path: ["pos-monitor", 1500 if t == "quick" else 20000, s * 1000 + sh, 1],
                      violation_kinds=["incremental-differs-from-fresh", "incremental-differs-from-recomputed", "same-position-different-key",
                                       "different-positions-same-key", "own-fen-rejected"])])


def replay(path):
    return G.generic_replay(PID, path)
