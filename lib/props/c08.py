"""C08 — all move-generation modes describe the same move set."""
import generic as G
from props.oracle_common import pos_stream, RULE
PID = "C08"


def check(tier, seed):
    q = tier == "quick"
    return G.generic_check(PID, "proof", tier, seed, coq=True,
        rule="obligations: theorems of coq/properties/C08.v over MovegenImpl.v (modes partition, on-demand drain = batch list each once with a set PV move first for every sort oracle and generator state, evasion list = evasion-target filter of the full list: sound and duplicate-free); correspondence: batch lists, HasLegalMove and on-demand drains with PV move / killers of the real generator vs MovegenImpl inside Coq (c01-cases); " + RULE + "; engine-internal monitor: on-demand generator drained under random generator histories (PV move from this / another position, killers, history and counter-move tables, reuse across positions with and without reset, half-drained predecessors) vs batch generation for modes all/non-quiet/quiet x evasion x UsePromNonQuiet; captures+quiet partition; evasion subset/no duplicates/complete for legal moves; HasLegalMove; oracle: batch pseudo-legal list and HasLegalMove vs the spec",
        streams=[dict(name="movegen_model_vs_engine", kind="coqcases", shards=lambda t: 2 if t == "quick" else 16,
                      args=lambda t, s, sh, path: ["c01-cases", 50 if t == "quick" else 300, s * 1000 + 850 + sh, path],
                      ok_marker="M = ([], [], [])", coq_timeout=3000),
                 dict(name="modes_monitor", kind="monitor", shards=lambda t: 8,
                      args=lambda t, s, sh, path: ["c08-monitor", 1500 if t == "quick" else 40000, s * 1000 + sh]),
                 pos_stream("pseudo_legal_vs_spec", ["pseudo-legal-move-list", "has-legal-move"], npos_quick=300, npos_thorough=3000)])


def replay(path):
    return G.generic_replay(PID, path)
