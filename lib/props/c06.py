"""C06 — with only sound techniques enabled the search value is the exact minimax value."""
import generic as G

PID = "C06"


def check(tier, seed):
    q = tier == "quick"
    streams = [
        dict(name="search_vs_minimax", kind="coqcases",
             shards=lambda t: 4 if t == "quick" else 16,
             args=lambda t, s, sh, path: ["c06", 40 if t == "quick" else 80, s * 100 + sh, 3 if t == "quick" else 4, 6 if t == "quick" else 24, path],
             timeout=3000),
        # assumption of the model: the game tree the search walks has only legal moves as edges (the move loops rely on
        # the legality filter after DoMove); checked through the move-loop hook on real searches
        dict(name="assumption_tree_moves_are_legal", kind="monitor", shards=lambda t: 4 if t == "quick" else 16,
             args=lambda t, s, sh, path: ["c07-monitor", 60 if t == "quick" else 1500, s * 1000 + 860 + sh],
             violation_kinds=["illegal-move-searched-in-tree"]),
    ]
    return G.generic_check(PID, "proof", tier, seed,
        rule=("obligations: C06 theorems over AlphaBeta.v (all trees within depth capacity, all windows, all orderings, all 8 switch combinations of the model); "
              "monitor: real depth-limited searches (quiescence off) under random vectors of the 7 sound switches (PVS, killer, history, counter moves, IID, MDP, hash for ordering) "
              "vs an independent brute-force minimax using the engine's generator/evaluator/draw test: value and best move; quiescence on: value equal across vectors; "
              "correspondence: whole real depth-d trees evaluated by AlphaBeta.root_fn (8 configs) and GameTree.minimax inside Coq vs the engine's value; "
              "a case = one search; distinct = distinct (position, depth)"),
        streams=streams,
        notes=["single-legal-move roots are compared at depth 1 (documented exception)",
               "drawn roots (clock>=100 / repetition) are skipped here: value 0, the missing move is C05's concern"])


def replay(path):
    return G.generic_replay(PID, path)
