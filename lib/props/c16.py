"""C16 — no input crashes the engine: FEN and UCI parsing are total."""
import generic as G
PID = "C16"


def check(tier, seed):
    q = tier == "quick"
    return G.generic_check(PID, "proof", tier, seed, coq=True,
        rule='obligations: theorems of coq/properties/C16.v over FenImpl.v (fen_total for ALL byte strings, well-formedness, reparse, round trip of legal positions); UCI dispatcher theorems over UciModel.v (uci_total for all lines and states, isready answered incl. surrounding white space, position = fold of Rules.make over the move list, kept on error, setoption changes exactly the named field); correspondence: command sessions on a fresh real UciHandler vs UciModel.run inside Coq (final FEN, config.Settings vector, readyok count, accepted go count; uci-cases); NewPositionFen accept/reject + printed FEN on structural families and mutated strings evaluated by FenImpl.setup inside Coq (c16-cases); monitors: FEN: structural families (every rank replaced by over-long/short/digit-0/9 variants, every field count, all 64 ep squares x 3 boards, signed/huge/garbled clocks) + byte-level mutations of valid FENs (incl. non-UTF-8 bytes) + valid FENs: NewPositionFen under recover(), accepted strings must reparse to themselves; UCI: ~60 command templates, all their token prefixes, a 1200-ply move list, mutated lines through a real handler under recover() and a watchdog, followed by isready and a check that a valid position is held; a case = one string',
        streams=[dict(name="fen_model_vs_engine", kind="coqcases", shards=lambda t: 2 if t == "quick" else 16,
                      args=lambda t, s, sh, path: ["c16-cases", 250 if t == "quick" else 1500, s * 1000 + 300 + sh, path], coq_timeout=3000),
                 dict(name="uci_model_vs_engine", kind="coqcases", shards=lambda t: 2 if t == "quick" else 16,
                      args=lambda t, s, sh, path: ["uci-cases", 60 if t == "quick" else 400, s * 1000 + 500 + sh, path], coq_timeout=3000),
                 dict(name='fen_monitor', kind="monitor", shards=lambda t: 2 if t == "quick" else 16,
                      args=lambda t, s, sh, path: ['c16-fen', 20000 if t == "quick" else 400000, s * 1000 + sh]),
                 dict(name='uci_monitor', kind="monitor", shards=lambda t: 2 if t == "quick" else 16,
                      args=lambda t, s, sh, path: ['c16-uci', 1500 if t == "quick" else 20000, s * 1000 + sh])])


def replay(path):
    return G.generic_replay(PID, path)
