"""C19 — opening book offers only legal moves; independent of build schedule and format."""
import generic as G
PID = "C19"


def check(tier, seed):
    q = tier == "quick"
    return G.generic_check(PID, "exploration", tier, seed, coq=False,
        rule='generated game collections (shared openings, duplicate games, transpositions, games cut by an illegal move) rendered as Simple (separated and unseparated), SAN and PGN (tags, comments, NAGs, nested variations, wrapped lines, all result markers); real books built with GOMAXPROCS 1, 2 and 16 for each format and compared with the expected positions and visit counts computed by replaying the games; every offered move legal, leading to the linked entry, offered once; a case = one book build',
        streams=[dict(name='book_monitor', kind="monitor", shards=lambda t: 2 if t == "quick" else 8,
                      args=lambda t, s, sh, path: ['c19-monitor', 4 if t == "quick" else 60, s * 1000 + sh])])


def replay(path):
    return G.generic_replay(PID, path)
