"""C19 — opening book offers only legal moves; independent of build schedule and format."""
import generic as G
PID = "C19"


def check(tier, seed):
    q = tier == "quick"
    return G.generic_check(PID, "proof", tier, seed, coq=True,
        rule='obligations: theorems of coq/properties/C19.v over BookModel.v (all interleavings of the per-line step lists; readers of the three formats) + source-site recogniser; correspondence: per-game addToBook steps from an independent replay and the real book entries checked by book_case_ok inside Coq (c19-cases); monitor: generated game collections (shared openings, duplicate games, transpositions, games cut by an illegal move) rendered as Simple (separated and unseparated), SAN and PGN (tags, comments, NAGs, nested variations, wrapped lines, all result markers); real books built with GOMAXPROCS 1, 2 and 16 for each format and compared with the expected positions and visit counts computed by replaying the games; every offered move legal, leading to the linked entry, offered once; a case = one book build',
        streams=[dict(name="book_model_vs_engine", kind="coqcases", shards=lambda t: 2 if t == "quick" else 8,
                      args=lambda t, s, sh, path: ["c19-cases", 3 if t == "quick" else 12, s * 1000 + 300 + sh, path], coq_timeout=3000),
                 dict(name='book_monitor', kind="monitor", shards=lambda t: 2 if t == "quick" else 8,
                      args=lambda t, s, sh, path: ['c19-monitor', 8 if t == "quick" else 60, s * 1000 + sh])])


def replay(path):
    return G.generic_replay(PID, path)
