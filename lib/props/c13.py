"""C13 — search limits honoured: move time, clock budget, depth, nodes, searchmoves."""
import generic as G
PID = "C13"


def check(tier, seed):
    q = tier == "quick"
    return G.generic_check(PID, "proof", tier, seed, coq=True,
        rule='obligations: theorems of coq/properties/C13.v over TimeCtl.v (bit-exact binary64 model of setupTimeControl, all inputs below 2^53 ns); correspondence: the real budget hook on a grid evaluated by time_case_ok inside Coq; monitor: time budget hook on a grid of remaining time (1 ms .. 10 h), increment (0 .. 3x the time), moves-to-go (0..80), game phase (0..24, both colours), move times: budget <= clock, n*budget <= time + n*inc (n = movestogo or 15), movetime margin; real searches: movetime (result within movetime + 250 ms), depth (exactly d iterations unless single move), nodes (overshoot <= 130), searchmoves (best move listed); a case = one grid point or one search',
        streams=[dict(name="budget_model_vs_hook", kind="coqcases", shards=lambda t: 2 if t == "quick" else 16,
                      args=lambda t, s, sh, path: ["c13-grid", 500 if t == "quick" else 1200, s * 1000 + 500 + sh, path]),
                 dict(name='budget_grid', kind="monitor", shards=lambda t: 2 if t == "quick" else 16,
                      args=lambda t, s, sh, path: ['c13-grid', 20000 if t == "quick" else 400000, s * 1000 + sh]),
                 dict(name='limit_searches', kind="monitor", shards=lambda t: 2 if t == "quick" else 8,
                      args=lambda t, s, sh, path: ['c13-limits', 30 if t == "quick" else 400, s * 1000 + sh])])


def replay(path):
    return G.generic_replay(PID, path)
