"""C11 — transposition table returns only what was stored for that key."""
import json, os
import common as C

PID = "C11"

KNOWN_LITERAL = "see DESIGN.md C11: key 0 sentinel, MoveNone value loss, int8 age wrap are refuted twins in TTProofs.v"


def check(tier, seed):
    ck = C.Check(PID, tier, seed, "proof")
    ck.coverage["rule"] = ("obligations: theorems of coq/properties/C11.v over the hand-written model TTImpl.v (all operation sequences, unbounded); "
                           "correspondence: random operation sequences (keys colliding in the index bits, key 0, boundary values +-10000, +-mate, invalid values, "
                           "depths -128..127, all bound types, bursts of >126 ageings, Clear, Resize 0..8 MB) executed on the real TtTable and on TTImpl.run inside Coq; "
                           "monitor: hits carry the probed key; capacity = largest power of two for 14 sizes; a case = one operation sequence, distinct by construction")
    ck.coverage["checker_cmd"] = "make -C /verif/coq properties/C11.vo ; coqc build/cases/cases_C11_*.v"
    ok, msg = C.build_harness()
    if not ok:
        ck.broken.append("harness build: " + msg[-500:])
        return ck.finish()
    ok, msg = C.regen_tables()
    if not ok:
        ck.broken.append("table/constant dump: " + msg[-500:])
    res = C.coq_property(PID)
    ck.add_coq(res)
    if not res["ok"]:
        ck.broken.append("coq obligations of properties/C11.v: " + res["output"][-800:])
    n, shards = (160, 4) if tier == "quick" else (4000, 16)
    os.makedirs(C.CASES, exist_ok=True)
    import concurrent.futures as cf

    def one(i):
        path = os.path.join(C.CASES, "cases_C11_%d.v" % i)
        rc, rep, out, err = C.harness(["c11-cases", n // shards, seed * 1000 + i, path], timeout=600)
        if rep is None:
            return i, None, "harness failed: " + (out + err)[-400:]
        ok, cout = C.coq_eval_cases(path, timeout=2400)
        good = ok and "M = []" in cout
        return i, rep, (None if good else "model/implementation disagreement in " + path + ": " + cout[-600:])

    with cf.ThreadPoolExecutor(max_workers=min(shards, 8)) as ex:
        for i, rep, bad in ex.map(one, range(shards)):
            if rep is not None:
                ck.add_report("correspondence_ops", rep)
            if bad:
                ck.broken.append("correspondence C11 TTImpl.run vs real TtTable: " + bad)
    if tier == "thorough" and not os.environ.get("VERIF_NO_COQCHK"):
        rc, out, err = C.run("cd %s && coqchk -silent -o -R theories FG -R gen FG.gen -R properties FG.props FG.props.C11" % C.COQ, timeout=3000)
        ck.coverage["coqchk"] = (out + err)[-1500:]
        if rc == 124:
            ck.notes.append("coqchk did not finish within its time budget on this machine (not a failure; the coqc build above is the check)")
        elif rc != 0:
            ck.broken.append("coqchk failed")
    ck.notes.append(KNOWN_LITERAL)
    return ck.finish()


def replay(path):
    import generic as G
    return G.generic_replay(PID, path)
