"""Shared stream definitions for the properties decided against the extracted rules oracle."""


def pos_stream(name, kinds, violation_kinds=None, npos_quick=600, npos_thorough=6000):
    return dict(name=name, kind="oracle",
                shards=lambda t: 16,
                args=lambda t, s, sh, path: ["pos-stream", npos_quick if t == "quick" else npos_thorough, s * 1000 + sh, path, "1" if sh == 0 else "0"],
                oracle_kinds=set(kinds) | {"spec-cannot-parse-fen", "move-not-pseudo-legal-in-spec", "not-a-legal-position"},
                violation_kinds=set(violation_kinds or []),
                timeout=3000, oracle_timeout=6000)

RULE = ("positions: curated corpus (+colour mirrors), random legal play from corpus positions and from random legal placements (2..32 pieces) with weights favouring "
        "captures/castling/promotion/en passant, every position on the way is a case; each case carries what the real engine reports; the extracted Coq rules "
        "specification (Rules.v via ExtrOcamlBasic) recomputes it and reports disagreements; distinct = distinct Zobrist keys")
