"""C05 — search always terminates with a legal best move, ponder move and PV."""
import generic as G
from props.oracle_common import pos_stream
PID = "C05"


def check(tier, seed):
    q = tier == "quick"
    return G.generic_check(PID, "proof", tier, seed, coq=True,
        rule="obligations: theorems of coq/properties/C05.v + C05_sites_recognised; correspondence: real depth 1-3 searches in the minimal configuration (PVS on/off) replayed by the PV-buffer model inside Coq from the dumped game tree and the comparison outcomes of a reference alpha-beta: final PV, every iteration PV and the best move must be what the model computes, and playable in the tree (c05-cases, Replay.run_case); assumption stream: WasLegalMove / IsLegalMove / GenerateLegalMoves vs the extracted rules specification (the PV-buffer theorems take the legality flags of delivered moves as given); monitor: real searches on corpus/random-game positions (incl. drawn roots) under random limit modes (depth, nodes, movetime, clock, infinite+stop after a random delay, ponder+ponderhit/stop), random combinations of all 25 feature switches, one Search object mostly reused so hash and history tables carry over; validated by replay: best move legal, ponder move legal after it, final PV and every 'info ... pv' line playable and starting with the best move, caller's position (FEN, key) unchanged, exactly one result, termination under a watchdog; a case = one search",
        streams=[dict(name="pv_model_vs_engine", kind="coqcases", shards=lambda t: 2 if t == "quick" else 16,
                      args=lambda t, s, sh, path: ["c05-cases", 60 if t == "quick" else 250, s * 1000 + 400 + sh, path], coq_timeout=3000),
                 # assumption of the model: the legality filter the search relies on (WasLegalMove after DoMove, root moves from
                 # GenerateLegalMoves) is the rules' legality - checked against the extracted specification
                 pos_stream("assumption_legality_filter", ["legality-post", "legality-pre", "legal-move-list"], npos_quick=150, npos_thorough=1500),
                 # assumption of the model (hash_ok): a hash move handed to the move generator belongs to the position; the
                 # search does not validate it, it relies on the key telling positions apart - in particular the same placement
                 # with and without an en-passant right or a castling right (C04's key-separation monitor, run here as well)
                 dict(name="assumption_key_separates_positions", kind="monitor", shards=lambda t: 4 if t == "quick" else 8,
                      args=lambda t, s, sh, path: ["pos-monitor", 1500 if t == "quick" else 20000, s * 1000 + 940 + sh, 1],
                      violation_kinds=["different-positions-same-key", "same-position-different-key"]),
                 # assumption of the model: every move the tree search makes and counts is a legal move of its node (the move
                 # loops rely on the legality filter after DoMove); checked through the move-loop hook on real searches
                 dict(name="assumption_tree_moves_are_legal", kind="monitor", shards=lambda t: 4 if t == "quick" else 16,
                      args=lambda t, s, sh, path: ["c07-monitor", 60 if t == "quick" else 1500, s * 1000 + 860 + sh],
                      violation_kinds=["illegal-move-searched-in-tree"]),
                 dict(name='search_monitor', kind="monitor", shards=lambda t: 4 if t == "quick" else 16,
                      args=lambda t, s, sh, path: ['c05-monitor', 40 if t == "quick" else 600, s * 1000 + sh])])


def replay(path):
    return G.generic_replay(PID, path)
