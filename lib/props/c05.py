"""C05 — search always terminates with a legal best move, ponder move and PV."""
import generic as G
PID = "C05"


def check(tier, seed):
    q = tier == "quick"
    return G.generic_check(PID, "proof", tier, seed, coq=True,
        rule="real searches on corpus/random-game positions (incl. drawn roots) under random limit modes (depth, nodes, movetime, clock, infinite+stop after a random delay, ponder+ponderhit/stop), random combinations of all 25 feature switches, one Search object mostly reused so hash and history tables carry over; validated by replay: best move legal, ponder move legal after it, final PV and every 'info ... pv' line playable and starting with the best move, caller's position (FEN, key) unchanged, exactly one result, termination under a watchdog; a case = one search",
        streams=[dict(name='search_monitor', kind="monitor", shards=lambda t: 4 if t == "quick" else 16,
                      args=lambda t, s, sh, path: ['c05-monitor', 40 if t == "quick" else 600, s * 1000 + sh])])


def replay(path):
    return G.generic_replay(PID, path)
