"""C02 — making a move yields the rule-defined successor position."""
import generic as G
from props.oracle_common import pos_stream, RULE
PID = "C02"


def check(tier, seed):
    return G.generic_check(PID, "proof", tier, seed, coq=True,
        rule="obligations: theorems of coq/properties/C02.v (PosImpl.do_move refines Rules.make for every pseudo-legal move of every well-formed position); correspondence: DoMove/UndoMove/DoNullMove/UndoNullMove/HasCheck sequences on the real Position vs PosImpl.run_ops evaluated inside Coq, 105 observables after every operation (pos-cases); " + RULE + "; compared here: for every legal move the FEN after DoMove (placement, side, rights, ep square, clocks) vs FenSpec.print (Rules.make p m); the engine's FEN of the position itself vs the spec printer",
        streams=[dict(name="position_model_vs_engine", kind="coqprint", shards=lambda t: 4 if t == "quick" else 16,
                      args=lambda t, s, sh, path: ["pos-cases", 14 if t == "quick" else 60, s * 1000 + 700 + sh, path], coq_timeout=3000, replay_kinds=['long-game-successor-wrong']),
                 dict(name="capacity_game", kind="monitor", shards=lambda t: 2,
                      args=lambda t, s, sh, path: ["pos-monitor", 50 if t == "quick" else 500, s * 1000 + 980 + sh, 1],
                      violation_kinds=["long-game-successor-wrong"]),
                 pos_stream("successor_vs_spec", ["successor-position", "fen-print"])])


def replay(path):
    return G.generic_replay(PID, path)
