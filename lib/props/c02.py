"""C02 — making a move yields the rule-defined successor position."""
import generic as G
from props.oracle_common import pos_stream, RULE
PID = "C02"


def check(tier, seed):
    return G.generic_check(PID, "exploration", tier, seed, coq=False,
        rule=RULE + "; compared here: for every legal move the FEN after DoMove (placement, side, rights, ep square, clocks) vs FenSpec.print (Rules.make p m); the engine's FEN of the position itself vs the spec printer",
        streams=[pos_stream("successor_vs_spec", ["successor-position", "fen-print"])])


def replay(path):
    return G.generic_replay(PID, path)
