"""C20 — book cache: exact round trip and tolerance of any damaged cache file."""
import generic as G
PID = "C20"


def check(tier, seed):
    q = tier == "quick"
    return G.generic_check(PID, "proof", tier, seed, coq=True,
        rule='obligations: theorems of coq/properties/C20.v over CacheModel.v (every cache state, lock released on every path) + source-site recogniser; correspondence: Initialize outcomes for missing / undecodable / complete caches x useCache x recreateCache checked by cache_case_ok inside Coq; fault enumeration: a cache file is written by a real build, then every prefix of it (thorough: every byte; quick: every 5th byte), 24 bit-flipped variants and a garbage file are put in its place and Initialize is run twice in one process under a 30 s watchdog; the result must equal the book built from the source (bit-flipped but still decodable caches are outside the property and only required to terminate); cache round trip; a case = one damaged cache state',
        streams=[dict(name="cache_model_vs_engine", kind="coqcases", shards=lambda t: 1,
                      args=lambda t, s, sh, path: ["c19-cases", 1, s * 1000 + 700 + sh, path], coq_timeout=3000, ok_marker="MC = []"),
                 dict(name="cache_faults", kind="monitor", shards=lambda t: 1 if t == "quick" else 4,
                      args=lambda t, s, sh, path: ["c20-monitor", 1 if t == "quick" else 3, s * 1000 + sh, 5 if t == "quick" else 1], timeout=3000)])


def replay(path):
    return G.generic_replay(PID, path)
