"""C20 — book cache: exact round trip and tolerance of any damaged cache file."""
import generic as G
PID = "C20"


def check(tier, seed):
    q = tier == "quick"
    return G.generic_check(PID, "fault_enumeration", tier, seed, coq=False,
        rule='a cache file is written by a real build, then every prefix of it (thorough: every byte; quick: every 5th byte), 24 bit-flipped variants and a garbage file are put in its place and Initialize is run twice in one process under a 30 s watchdog; the result must equal the book built from the source (bit-flipped but still decodable caches are outside the property and only required to terminate); cache round trip; a case = one damaged cache state',
        streams=[dict(name="cache_faults", kind="monitor", shards=lambda t: 1 if t == "quick" else 4,
                      args=lambda t, s, sh, path: ["c20-monitor", 1 if t == "quick" else 3, s * 1000 + sh, 5 if t == "quick" else 1], timeout=3000)])


def replay(path):
    return G.generic_replay(PID, path)
