"""C14 — search lifecycle is race-free, deadlock-free and isolated between searches."""
import generic as G
PID = "C14"


def check(tier, seed):
    q = tier == "quick"
    return G.generic_check(PID, "proof", tier, seed, coq=True,
        rule="obligations: theorems of coq/properties/C14.v over the small-step model Lifecycle.v for every schedule (race_free, no_deadlock, one_result_per_start, no_foreign_stop, infinite_not_before_stop, start_while_running_rejected, ...) + C14_sites_recognised (the synchronisation statements the model transcribes are re-recognised in /repo); correspondence: call sequences issued by one controller goroutine on a real Search with a recording driver, the observed event trace must be a behaviour of the model (Lifecycle.accepts: breadth-first search over all schedules inside Coq; c14-cases); monitors: storms of lifecycle calls (start in 5 modes, stop, ponderhit, newgame, clearhash, resizehash, isready, issearching, wait) on one Search object from a controller goroutine with delays of 0..7 ms (inside the timer's 5 ms polling window): every call returns under a 15 s watchdog, results == accepted starts, start while an infinite/ponder search runs is rejected promptly, infinite/ponder searches deliver nothing before their stop/ponderhit, stale-timer scenario; the same run under a -race build: every reported data race is a violation (classified by the two access sites in /repo); a case = one storm",
        streams=[dict(name="lifecycle_model_vs_engine", kind="coqcases", shards=lambda t: 2 if t == "quick" else 16,
                      args=lambda t, s, sh, path: ["c14-cases", 40 if t == "quick" else 150, s * 1000 + 600 + sh, path], coq_timeout=3000, ok_marker="M = ([],"),
                 dict(name='lifecycle_storms', kind="monitor", shards=lambda t: 2 if t == "quick" else 8,
                      args=lambda t, s, sh, path: ['c14-monitor', 40 if t == "quick" else 1500, s * 1000 + sh]),
                 dict(name='lifecycle_storms_race', kind="monitor", shards=lambda t: 2 if t == "quick" else 8,
                      args=lambda t, s, sh, path: ['c14-monitor', 15 if t == "quick" else 300, s * 1000 + sh], race=True),
                 # whole UCI sessions (isready during a search, go right after bestmove, hash commands while searching) under
                 # the race detector: the handler's output path and option handling are shared between the two goroutines
                 dict(name='uci_sessions_race', kind="monitor", shards=lambda t: 2 if t == "quick" else 8,
                      args=lambda t, s, sh, path: ['c12-monitor', 2 if t == "quick" else 30, s * 1000 + 770 + sh], race=True,
                      violation_kinds=["bestmove-count", "readyok-missing", "uciok-missing"])])  # no wall-clock kinds here: under the race detector and a loaded machine times mean nothing; this stream is for race reports and lost answers


def replay(path):
    return G.generic_replay(PID, path)
