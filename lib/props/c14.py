"""C14 — search lifecycle is race-free, deadlock-free and isolated between searches."""
import generic as G
PID = "C14"


def check(tier, seed):
    q = tier == "quick"
    return G.generic_check(PID, "exploration", tier, seed, coq=False,
        rule="storms of lifecycle calls (start in 5 modes, stop, ponderhit, newgame, clearhash, resizehash, isready, issearching, wait) on one Search object from a controller goroutine with delays of 0..7 ms (inside the timer's 5 ms polling window): every call returns under a 15 s watchdog, results == accepted starts, start while an infinite/ponder search runs is rejected promptly, infinite/ponder searches deliver nothing before their stop/ponderhit, stale-timer scenario; the same run under a -race build: every reported data race is a violation (classified by the two access sites in /repo); a case = one storm",
        streams=[dict(name='lifecycle_storms', kind="monitor", shards=lambda t: 2 if t == "quick" else 8,
                      args=lambda t, s, sh, path: ['c14-monitor', 40 if t == "quick" else 1500, s * 1000 + sh]),
                 dict(name='lifecycle_storms_race', kind="monitor", shards=lambda t: 2 if t == "quick" else 8,
                      args=lambda t, s, sh, path: ['c14-monitor', 15 if t == "quick" else 300, s * 1000 + sh], race=True)])


def replay(path):
    return G.generic_replay(PID, path)
