"""C03 — undoing moves (and null moves) restores the position exactly."""
import generic as G
PID = "C03"


def check(tier, seed):
    q = tier == "quick"
    return G.generic_check(PID, "proof", tier, seed, coq=True,
        rule="obligations: theorems of coq/properties/C03.v over PosImpl.v; correspondence: operation sequences on the real Position vs PosImpl.run_ops evaluated inside Coq, 105 observables (incl. key, piece sets, material, psq sums, game phase, check cache, repetition 1-3, insufficient material) after every operation (pos-cases); monitor: random games (corpus + random placements); at every position a random depth-first excursion (depth 3 quick / 5 thorough) of pseudo-legal moves incl. promotions, captures on rook squares, en passant, castling and null moves, with the check cache filled at random; a snapshot of every public observable (FEN, key, 12 piece sets, occupancy, king squares, material, psq sums, game phase, in-check, last move/capture, history length, repetition 1-3, evaluation) is compared before/after; distinct = distinct Zobrist keys of the start positions",
        streams=[dict(name="position_model_vs_engine", kind="coqprint", shards=lambda t: 4 if t == "quick" else 16,
                      args=lambda t, s, sh, path: ["pos-cases", 14 if t == "quick" else 60, s * 1000 + 700 + sh, path], coq_timeout=3000, replay_kinds=['undo-does-not-restore']),
                 dict(name="undo_monitor", kind="monitor", shards=lambda t: 8,
                      args=lambda t, s, sh, path: ["pos-monitor", 800 if t == "quick" else 12000, s * 1000 + sh, 3 if t == "quick" else 5],
                      violation_kinds=["undo-does-not-restore"])])


def replay(path):
    return G.generic_replay(PID, path)
