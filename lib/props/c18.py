"""C18 — precomputed bitboard tables equal their geometric definitions."""
import json, os
import common as C

PID = "C18"


def check(tier, seed):
    ck = C.Check(PID, tier, seed, "proof")
    ck.coverage["rule"] = ("obligations: theorems of coq/properties/C18.v re-checked against tables dumped from the engine built from /repo now; "
                           "correspondence: real GetAttacksBb/ShiftBitboard on random full-board occupancies vs the Coq lookup model; "
                           "monitor: every square x every line occupancy (+noise), all leaper/pawn/between/distance entries, random shifts, against a Go ray-walk reference; "
                           "a case is one (table, index) entry or one (piece,square,occupancy) query, all distinct by construction")
    ck.coverage["checker_cmd"] = "make -C /verif/coq properties/C18.vo  (coqc 8.16.1 full .vo build; thorough tier adds coqchk -o)"
    ok, msg = C.build_harness()
    if not ok:
        ck.broken.append("harness build: " + msg[-500:])
        return ck.finish()
    ok, msg = C.regen_tables()
    if not ok:
        ck.broken.append("table dump: " + msg[-500:])
    res = C.coq_property(PID)
    ck.add_coq(res)
    if not res["ok"]:
        ck.broken.append("coq obligations of properties/C18.v: " + res["output"][-800:])
    # correspondence: lookup functions (index computation, shifts) model vs real
    n = 1500 if tier == "quick" else 20000
    os.makedirs(C.CASES, exist_ok=True)
    shards = 1 if tier == "quick" else 8
    for i in range(shards):
        path = os.path.join(C.CASES, "cases_C18_%d.v" % i)
        rc, rep, out, err = C.harness(["c18-cases", n // shards, seed * 100 + i, path])
        if rc != 0 or rep is None:
            ck.broken.append("c18-cases failed: " + (out + err)[-500:])
            break
        ok, out = C.coq_eval_cases(path)
        rep["samples"] = [{"slider_case(pt,sq,occ,observed)": open(path).read().split("[\n", 1)[1].split(";")[0]}]
        ck.add_report("correspondence_lookup", rep)
        if not ok or "M = ([], [])" not in out.replace("\n", " "):
            ck.broken.append("correspondence C18 lookup model vs GetAttacksBb/ShiftBitboard: " + out[-800:])
    # monitor (also the failing-input search)
    rc, rep, out, err = C.harness(["c18-monitor", seed, 2 if tier == "quick" else 8], timeout=1200)
    if rep is None:
        ck.broken.append("c18-monitor crashed: " + (out + err)[-500:])
    ck.add_report("monitor_exhaustive", rep)
    if tier == "thorough" and not os.environ.get("VERIF_NO_COQCHK"):
        rc, out, err = C.run("cd %s && coqchk -silent -o -R theories FG -R gen FG.gen -R properties FG.props FG.props.C18" % C.COQ, timeout=3000)
        ck.coverage["coqchk"] = (out + err)[-1500:]
        if rc == 124:
            ck.notes.append("coqchk did not finish within its time budget on this machine (not a failure; the coqc build above is the check)")
        elif rc != 0:
            ck.broken.append("coqchk failed")
    ck.coverage["exhaustive"] = True
    return ck.finish()


def replay(path):
    import generic as G
    return G.generic_replay(PID, path)
