"""C07 — mate and stalemate are scored only where there is really no legal move."""
import generic as G
from props.oracle_common import pos_stream
PID = "C07"


def check(tier, seed):
    q = tier == "quick"
    return G.generic_check(PID, "proof", tier, seed, coq=True,
        rule='obligations: theorems of coq/properties/C07.v over the hand-written control-flow model, all oracles (= all feature combinations, stop moments, hash contents); tie to the source: tools/sites.py re-recognises every transcribed statement pattern in /repo and the theorem C07_sites_recognised re-checks it; correspondence: the move loops of real searches seen through the move-loop hook (per delivered move: futility-pruned / skipped / illegal / counted / stop / cut; the engine\'s movesSearched, movesPruned and classification) replayed by Terminal.sloop / qloop inside Coq (c07-cases); assumption streams: on-demand evasion generation omits no legal move and HasLegalMove is exact (the loop theorems take "every legal move is delivered" from C01/C08); monitor: searches (depth 2-6) on corpus, lost endgames with few pieces and random positions under the default configuration and random combinations of the pruning switches (FP, LMP, LMR, NMP, razoring, RFP, QFP, TT, quiescence, extensions); the verif hook in alphabeta.go reports every node classified as checkmate/stalemate and the harness checks on a fresh copy that the node has no legal move and that the kind matches the check state; terminal roots must be reported as -mate / draw with no move; a case = one search',
        streams=[dict(name="loop_model_vs_engine", kind="coqcases", shards=lambda t: 2 if t == "quick" else 16,
                      args=lambda t, s, sh, path: ["c07-cases", 30 if t == "quick" else 200, s * 1000 + 450 + sh, path], coq_timeout=3000),
                 # assumptions of the model: GetNextMove(GenAll, evasion = in check) delivers every legal move and HasLegalMove is exact
                 dict(name="assumption_generator_complete", kind="monitor", shards=lambda t: 4,
                      args=lambda t, s, sh, path: ["c08-monitor", 400 if t == "quick" else 6000, s * 1000 + 470 + sh],
                      violation_kinds=["evasion-omits-legal-move", "has-legal-move-wrong", "on-demand-differs-from-batch", "generator-panics"]),
                 pos_stream("assumption_has_legal_move", ["has-legal-move", "legal-move-list"], npos_quick=100, npos_thorough=1000),
                 dict(name='terminal_monitor', kind="monitor", shards=lambda t: 4 if t == "quick" else 16,
                      args=lambda t, s, sh, path: ['c07-monitor', 60 if t == "quick" else 1500, s * 1000 + sh])])


def replay(path):
    return G.generic_replay(PID, path)
