"""C01 — legal move generation is exactly the rules of chess; perft."""
import generic as G
from props.oracle_common import pos_stream, RULE
PID = "C01"


def check(tier, seed):
    return G.generic_check(PID, "proof", tier, seed, coq=True,
        rule="obligations: theorems of coq/properties/C01.v (MovegenImpl generates a duplicate-free permutation of Rules.pseudo / Rules.legal for every legal position; perft_exact for every depth); correspondence: batch pseudo-legal lists (every mode x evasion x UsePromNonQuiet), HasLegalMove and on-demand drains of the real generator vs MovegenImpl inside Coq (c01-cases); " + RULE + "; compared here: GenerateLegalMoves as a sorted list of 16-bit codes (missing / extra / repeated moves all show) and the engine's perft counts (batch and on-demand) for depth 2-3",
        streams=[dict(name="movegen_model_vs_engine", kind="coqcases", shards=lambda t: 2 if t == "quick" else 16,
                      args=lambda t, s, sh, path: ["c01-cases", 50 if t == "quick" else 300, s * 1000 + 800 + sh, path],
                      ok_marker="M = ([], [], [])", coq_timeout=3000),
                 pos_stream("legal_moves_vs_spec", ["legal-move-list", "perft"]),
                 # perft and the search do not use the legal move list: they make every pseudo-legal move and keep those that
                 # pass WasLegalMove; "the moves the engine treats as legal" therefore includes that filter (every pseudo-legal
                 # move generated without the evasion hint, castling while in check among them)
                 pos_stream("assumption_legality_filter_after_the_move", ["legality-post"], npos_quick=300, npos_thorough=3000)])


def replay(path):
    return G.generic_replay(PID, path)
