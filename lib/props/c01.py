"""C01 — legal move generation is exactly the rules of chess; perft."""
import generic as G
from props.oracle_common import pos_stream, RULE
PID = "C01"


def check(tier, seed):
    return G.generic_check(PID, "exploration", tier, seed, coq=False,
        rule=RULE + "; compared here: GenerateLegalMoves as a sorted list of 16-bit codes (missing / extra / repeated moves all show) and the engine's perft counts (batch and on-demand) for depth 2-3",
        streams=[pos_stream("legal_moves_vs_spec", ["legal-move-list", "perft"])])


def replay(path):
    return G.generic_replay(PID, path)
