"""C09 — check, attack and legality predicates agree with the board."""
import generic as G
from props.oracle_common import pos_stream, RULE
PID = "C09"


def check(tier, seed):
    return G.generic_check(PID, "proof", tier, seed, coq=True,
        rule="obligations: theorems of coq/properties/C09.v (AttacksImpl over the bitboard view = Rules spec, for every legal position, square, colour, pseudo-legal move); correspondence: real IsAttacked maps, AttacksTo, HasCheck, GivesCheck, IsLegalMove/WasLegalMove evaluated by the bitboard-level Coq model inside Coq (c09-cases); the cached HasCheck answer (hasCheckFlag saved and restored through the undo history) is part of the PosImpl operation-sequence correspondence (pos-cases) and is compared with IsAttacked at every level of nested do/undo/null excursions (check_cache_monitor); " + RULE + "; compared here: HasCheck, IsAttacked for all 64 squares x both colours (with recover(): a panic is a violation), AttacksTo on king/ep/random squares, GivesCheck, IsLegalMove and WasLegalMove for every pseudo-legal move, against the spec incl. the two en-passant conventions",
        streams=[dict(name="impl_model_vs_engine", kind="coqcases", shards=lambda t: 4 if t == "quick" else 16,
                      args=lambda t, s, sh, path: ["c09-cases", 25 if t == "quick" else 150, s * 1000 + 300 + sh, path], coq_timeout=3000),
                 dict(name="check_cache_monitor", kind="monitor", shards=lambda t: 4 if t == "quick" else 8,
                      args=lambda t, s, sh, path: ["pos-monitor", 500 if t == "quick" else 8000, s * 1000 + 900 + sh, 3 if t == "quick" else 5],
                      violation_kinds=["check-cache-stale"]),
                 dict(name="position_model_vs_engine", kind="coqprint", shards=lambda t: 2 if t == "quick" else 8,
                      args=lambda t, s, sh, path: ["pos-cases", 12 if t == "quick" else 60, s * 1000 + 950 + sh, path], coq_timeout=3000, replay_kinds=['check-cache-stale']),
                 pos_stream("predicates_vs_spec", ["in-check", "is-attacked", "gives-check", "legality-pre", "legality-post", "attackers"], violation_kinds=["is-attacked-panic", "predicate-depends-on-call-order"])])


def replay(path):
    return G.generic_replay(PID, path)
