"""C09 — check, attack and legality predicates agree with the board."""
import generic as G
from props.oracle_common import pos_stream, RULE
PID = "C09"


def check(tier, seed):
    return G.generic_check(PID, "exploration", tier, seed, coq=False,
        rule=RULE + "; compared here: HasCheck, IsAttacked for all 64 squares x both colours (with recover(): a panic is a violation), AttacksTo on king/ep/random squares, GivesCheck, IsLegalMove and WasLegalMove for every pseudo-legal move, against the spec incl. the two en-passant conventions",
        streams=[pos_stream("predicates_vs_spec", ["in-check", "is-attacked", "gives-check", "legality-pre", "legality-post", "attackers"], violation_kinds=["is-attacked-panic"])])


def replay(path):
    return G.generic_replay(PID, path)
