"""C12 — UCI session: one bestmove per go, readyok, prompt stop, correct position."""
import generic as G
PID = "C12"


def check(tier, seed):
    q = tier == "quick"
    return G.generic_check(PID, "proof", tier, seed, coq=True,
        rule="obligations: theorems of coq/properties/C12.v (Lifecycle.v for every schedule: one result per accepted go, infinite/ponder only after stop/ponderhit, go after bestmove accepted, blocked controller released within a bound, output never muted; UciModel.v: isready answered, position = fold of the rules, kept on error, setoption exact); correspondence: lifecycle traces of the real Search accepted by the model (c14-cases) and command sessions of the real UciHandler vs UciModel.run (FEN, config.Settings, readyok count, accepted go count; uci-cases), both evaluated inside Coq; monitor: protocol-valid sessions against a real UciHandler through pipes (as a GUI drives it): per go command exactly one bestmove; infinite/ponder searches answered only after stop/ponderhit; isready answered while searching; stop prompt (<2 s); 'go depth 1 wtime..' followed at once by 'go infinite' (stale timer); position command vs independent replay (FEN and key through the verif hook); setoption true/false changes exactly one line of 'Print Config'; ucinewgame + depth 4 search vs a fresh engine with Use_Hash on and off; a case = one go command",
        streams=[dict(name="lifecycle_model_vs_engine", kind="coqcases", shards=lambda t: 2 if t == "quick" else 16,
                      args=lambda t, s, sh, path: ["c14-cases", 40 if t == "quick" else 150, s * 1000 + 600 + sh, path], coq_timeout=3000, ok_marker="M = ([],"),
                 dict(name="uci_model_vs_engine", kind="coqcases", shards=lambda t: 2 if t == "quick" else 8,
                      args=lambda t, s, sh, path: ["uci-cases", 50 if t == "quick" else 300, s * 1000 + 650 + sh, path], coq_timeout=3000),
                 dict(name='session_monitor', kind="monitor", shards=lambda t: 4 if t == "quick" else 16,
                      args=lambda t, s, sh, path: ['c12-monitor', 10 if t == "quick" else 150, s * 1000 + sh])])


def replay(path):
    return G.generic_replay(PID, path)
