"""C12 — UCI session: one bestmove per go, readyok, prompt stop, correct position."""
import generic as G
PID = "C12"


def check(tier, seed):
    q = tier == "quick"
    return G.generic_check(PID, "exploration", tier, seed, coq=False,
        rule="protocol-valid sessions against a real UciHandler through pipes (as a GUI drives it): per go command exactly one bestmove; infinite/ponder searches answered only after stop/ponderhit; isready answered while searching; stop prompt (<2 s); 'go depth 1 wtime..' followed at once by 'go infinite' (stale timer); position command vs independent replay (FEN and key through the verif hook); setoption true/false changes exactly one line of 'Print Config'; ucinewgame + depth 4 search vs a fresh engine with Use_Hash on and off; a case = one go command",
        streams=[dict(name='session_monitor', kind="monitor", shards=lambda t: 4 if t == "quick" else 16,
                      args=lambda t, s, sh, path: ['c12-monitor', 10 if t == "quick" else 150, s * 1000 + sh])])


def replay(path):
    return G.generic_replay(PID, path)
