"""C10 — draw detection: repetition, fifty-move clock, insufficient material."""
import generic as G
PID = "C10"


def check(tier, seed):
    q = tier == "quick"
    return G.generic_check(PID, "exploration", tier, seed, coq=False,
        rule="shuffling games (reversible officer/king moves, moves taken back, castling-rights changes, irreversible moves in between) from corpus positions and random placements: CheckRepetitions(1..3) vs the count of earlier positions of the game with the same placement/side/rights/ep field, half-move clock vs plies since the last capture/pawn move (continuing from the FEN value); all 7056 material signatures with up to 3 pieces per side from {N, light B, dark B, R, Q, P} vs the property's must-be-true / must-be-false classes; a case = one position of a game or one signature",
        streams=[dict(name='draw_monitor', kind="monitor", shards=lambda t: 2 if t == "quick" else 16,
                      args=lambda t, s, sh, path: ['c10-monitor', 6000 if t == "quick" else 200000, s * 1000 + sh])])


def replay(path):
    return G.generic_replay(PID, path)
