"""C10 — draw detection: repetition, fifty-move clock, insufficient material."""
import generic as G
PID = "C10"


def check(tier, seed):
    q = tier == "quick"
    return G.generic_check(PID, "proof", tier, seed, coq=True,
        rule="obligations: theorems of coq/properties/C10.v over PosImpl.v; correspondence: operation sequences on the real Position vs PosImpl.run_ops evaluated inside Coq, 105 observables (incl. key, piece sets, material, psq sums, game phase, check cache, repetition 1-3, insufficient material) after every operation (pos-cases); monitor: shuffling games (reversible officer/king moves, moves taken back, castling-rights changes, irreversible moves in between) from corpus positions and random placements: CheckRepetitions(1..3) vs the count of earlier positions of the game with the same placement/side/rights/ep field, half-move clock vs plies since the last capture/pawn move (continuing from the FEN value); all 7056 material signatures with up to 3 pieces per side from {N, light B, dark B, R, Q, P} vs the property's must-be-true / must-be-false classes; a case = one position of a game or one signature",
        streams=[dict(name="position_model_vs_engine", kind="coqprint", shards=lambda t: 4 if t == "quick" else 16,
                      args=lambda t, s, sh, path: ["pos-cases", 14 if t == "quick" else 60, s * 1000 + 700 + sh, path], coq_timeout=3000),
                 dict(name='draw_monitor', kind="monitor", shards=lambda t: 2 if t == "quick" else 16,
                      args=lambda t, s, sh, path: ['c10-monitor', 6000 if t == "quick" else 200000, s * 1000 + sh])])


def replay(path):
    return G.generic_replay(PID, path)
