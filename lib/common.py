"""Shared machinery of the /verif driver: building, regeneration, Coq obligations,
evidence and violation reporting."""
import fcntl, hashlib, json, os, re, shutil, subprocess, sys, time

VERIF = os.path.dirname(os.path.dirname(os.path.abspath(__file__)))
REPO = os.environ.get("VERIF_REPO", "/repo")
BUILD = os.path.join(VERIF, "build")
COQ = os.path.join(VERIF, "coq")
HARNESS_SRC = os.path.join(VERIF, "harness")
HARNESS = os.path.join(BUILD, "verifh")
HARNESS_RACE = os.path.join(BUILD, "verifh-race")
CASES = os.path.join(BUILD, "cases")
EVIDENCE = os.path.join(VERIF, "evidence")
REPLAYS = os.path.join(VERIF, "replays")
FINDINGS = os.path.join(VERIF, "known_findings.json")

GOENV = dict(os.environ, GOFLAGS="-mod=mod", GOPROXY="off", GOSUMDB="off", GOTOOLCHAIN="local",
             CGO_ENABLED=os.environ.get("CGO_ENABLED", "1"))
GOENV.setdefault("GOCACHE", os.path.join(BUILD, "gocache"))

TRUSTED_BASE = [
    "Coq 8.16.1 kernel incl. vm_compute (no native_compute); primitive Uint63 only for reading dumped table literals",
    "no axioms declared; Print Assumptions output recorded per theorem below",
    "tools: /verif/harness (Go, built with -tags verif from /repo's working tree), tools/gotrans constant translator",
    "Go toolchain/runtime, regexp, strconv, gob: modelled not verified",
]


def log(*a):
    print(*a, file=sys.stderr, flush=True)


def run(cmd, timeout=600, cwd=None, env=None, check=False, input=None):
    """Run a command, return (rc, stdout, stderr). rc = 124 on timeout."""
    t0 = time.time()
    try:
        p = subprocess.run(cmd, cwd=cwd, env=env, timeout=timeout, capture_output=True, text=True,
                           shell=isinstance(cmd, str), input=input, errors="replace")
        rc, out, err = p.returncode, p.stdout, p.stderr
    except subprocess.TimeoutExpired as e:
        rc = 124
        out = e.stdout if isinstance(e.stdout, str) else (e.stdout or b"").decode(errors="replace")
        err = e.stderr if isinstance(e.stderr, str) else (e.stderr or b"").decode(errors="replace")
    if check and rc != 0:
        raise RuntimeError("command failed (%s): %s\n%s\n%s" % (rc, cmd, out[-2000:], err[-2000:]))
    return rc, out, err


class Lock:
    def __init__(self, name):
        os.makedirs(BUILD, exist_ok=True)
        self.path = os.path.join(BUILD, "." + name + ".lock")

    def __enter__(self):
        self.f = open(self.path, "w")
        fcntl.flock(self.f, fcntl.LOCK_EX)
        return self

    def __exit__(self, *a):
        fcntl.flock(self.f, fcntl.LOCK_UN)
        self.f.close()


def replace_if_changed(tmp, dst):
    if os.path.exists(dst):
        with open(tmp, "rb") as a, open(dst, "rb") as b:
            if a.read() == b.read():
                os.remove(tmp)
                return False
    os.replace(tmp, dst)
    return True


def build_harness(race=False):
    """(Re)build the Go harness against /repo's current working tree, hooks enabled."""
    with Lock("harness"):
        os.makedirs(BUILD, exist_ok=True)
        shutil.copy(os.path.join(REPO, "go.sum"), os.path.join(HARNESS_SRC, "go.sum"))
        gm = os.path.join(HARNESS_SRC, "go.mod")
        txt = open(gm).read()
        want = re.sub(r"(replace github.com/frankkopp/FrankyGo => ).*", lambda m: m.group(1) + REPO, txt)
        if want != txt:
            open(gm, "w").write(want)
        out = HARNESS_RACE if race else HARNESS
        cmd = ["go", "build", "-tags", "verif"] + (["-race"] if race else []) + ["-o", out, "."]
        rc, so, se = run(cmd, cwd=HARNESS_SRC, env=GOENV, timeout=900)
        if rc != 0:
            return False, (so + se)[-4000:]
        return True, ""


def harness(args, timeout=600, race=False, env=None):
    """Run a harness sub-command; returns (rc, report-dict-or-None, raw stdout, stderr)."""
    exe = HARNESS_RACE if race else HARNESS
    e = dict(os.environ)
    # scratch files of the harness (book files, cache files) live under build/tmp, not under /tmp; what a killed
    # run left behind is removed after two hours
    tmpd = os.path.join(BUILD, "tmp")
    try:
        os.makedirs(tmpd, exist_ok=True)
        now = time.time()
        for n in os.listdir(tmpd):
            q = os.path.join(tmpd, n)
            if now - os.path.getmtime(q) > 7200:
                shutil.rmtree(q, ignore_errors=True) if os.path.isdir(q) else os.remove(q)
        e["TMPDIR"] = tmpd
    except Exception:
        pass
    if env:
        e.update(env)
    rc, out, err = run([exe] + [str(a) for a in args], timeout=timeout, env=e, cwd=BUILD)
    rep = None
    for line in out.splitlines():
        if line.startswith("REPORT "):
            try:
                rep = json.loads(line[7:])
            except Exception:
                pass
    return rc, rep, out, err


def regen_tables():
    """Translation by execution: dump the engine's tables into coq/gen/Tables_gen.v."""
    with Lock("coq"):
        os.makedirs(os.path.join(COQ, "gen"), exist_ok=True)
        tmp = os.path.join(COQ, "gen", "Tables_gen.v.tmp")
        rc, rep, out, err = harness(["dump-tables", tmp], timeout=120)
        if rc != 0:
            return False, "dump-tables failed: " + (out + err)[-2000:]
        changed = replace_if_changed(tmp, os.path.join(COQ, "gen", "Tables_gen.v"))
        # second dump (samples of small pure functions through hooks: mate-distance correction, table
        # capacity).  A harness that does not have the command yet is not an error: the file is left alone.
        tmp2 = os.path.join(COQ, "gen", "Tables2_gen.v.tmp")
        rc, rep, out, err = harness(["dump-tables2", tmp2], timeout=120)
        if rc == 0 and os.path.exists(tmp2):
            changed = replace_if_changed(tmp2, os.path.join(COQ, "gen", "Tables2_gen.v")) or changed
        else:
            if os.path.exists(tmp2):
                os.remove(tmp2)
            if "unknown command" not in (out + err):
                return False, "dump-tables2 failed: " + (out + err)[-2000:]
    if changed:
        # everything compiled against the old dump is stale: full rebuild (a failing proof shows up
        # again, with its theorem name, when the property's own obligations are re-checked)
        coq_make(keep_going=True)
    return True, "changed" if changed else "unchanged"


def regen_sites():
    """Source-site recogniser -> coq/gen/Sites_gen.v (see tools/sites.py)."""
    with Lock("coq"):
        rc, out, err = run([sys.executable, os.path.join(VERIF, "tools", "sites.py"), REPO, os.path.join(COQ, "gen", "Sites_gen.v")], timeout=120)
    return rc == 0, (out + err)[-1500:]


def regen_consts():
    """Translator: parse /repo sources into coq/gen/Consts_gen.v."""
    gt = os.path.join(BUILD, "gotrans")
    with Lock("coq"):
        rc, so, se = run(["go", "build", "-o", gt, "."], cwd=os.path.join(VERIF, "tools", "gotrans"), env=GOENV, timeout=300)
        if rc != 0:
            return False, "gotrans build failed: " + (so + se)[-2000:]
        tmp = os.path.join(COQ, "gen", "Consts_gen.v.tmp")
        rc, so, se = run([gt, REPO, tmp], timeout=120)
        if rc != 0:
            if os.path.exists(tmp):
                os.remove(tmp)
            return False, "gotrans failed: " + (so + se)[-2000:]
        changed = replace_if_changed(tmp, os.path.join(COQ, "gen", "Consts_gen.v"))
        return True, "changed" if changed else "unchanged"


def coq_makefile():
    if not os.path.exists(os.path.join(COQ, "Makefile")) or \
            os.path.getmtime(os.path.join(COQ, "Makefile")) < os.path.getmtime(os.path.join(COQ, "_CoqProject")):
        run(["coq_makefile", "-f", "_CoqProject", "-o", "Makefile"], cwd=COQ, check=True)


def coq_make(targets=None, timeout=3000, keep_going=False):
    """Full .vo build of the given targets (default: everything). Returns (ok, output)."""
    with Lock("coq"):
        coq_makefile()
        cmd = ["make", "-j16"] + (["-k"] if keep_going else []) + (targets or [])
        rc, out, err = run(cmd, cwd=COQ, timeout=timeout)
        return rc == 0, out + err


def coq_property(pid, timeout=3000):
    """Re-check properties/<pid>.v (and whatever it depends on that is out of date).
    Returns dict(ok, output, theorems, assumptions)."""
    vfile = os.path.join(COQ, "properties", pid + ".v")
    src = open(vfile).read()
    theorems = re.findall(r"^\s*(?:Theorem|Corollary)\s+(\w+)", src, re.M)
    examples = re.findall(r"^\s*Example\s+(\w+)", src, re.M)
    with Lock("coq"):
        coq_makefile()
        vo = os.path.join(COQ, "properties", pid + ".vo")
        if os.path.exists(vo):
            os.remove(vo)
        rc, out, err = run(["make", "-j16", "properties/%s.vo" % pid], cwd=COQ, timeout=timeout)
    text = out + err
    assumptions = {}
    # parse Print Assumptions blocks in order of appearance
    pa = re.findall(r"^\s*Print Assumptions\s+(\w+)\.", src, re.M)
    blocks = re.split(r"(?m)^(?=Closed under the global context|Axioms:)", out)
    blocks = [b for b in blocks if b.startswith("Closed under") or b.startswith("Axioms:")]
    for name, b in zip(pa, blocks):
        b = b.strip()
        if b.startswith("Closed"):
            assumptions[name] = "Closed under the global context"
        else:
            assumptions[name] = b[:8000]
    return dict(ok=(rc == 0), output=text[-6000:], theorems=theorems, examples=examples, assumptions=assumptions)


def coq_eval_cases(path, timeout=1200):
    """Compile a generated cases_*.v file; returns (ok, stdout). The file must end with
    `Print M.` where M is the list/tuple of mismatches."""
    d = os.path.dirname(path)
    rc, out, err = run(["coqc", "-R", os.path.join(COQ, "theories"), "FG", "-R", os.path.join(COQ, "gen"), "FG.gen",
                        "-R", d, "FGcases", path], cwd=d, timeout=timeout)
    return rc == 0, out + err


# ---------------------------------------------------------------- findings / violations

def load_findings():
    try:
        return json.load(open(FINDINGS)).get("findings", [])
    except Exception:
        return []


def match_finding(pid, v, findings):
    for f in findings:
        if f.get("property") != pid or f.get("status") != "known":
            continue
        if f.get("kind") != v.get("kind"):
            continue
        m = f.get("match", {})
        inp = v.get("input", {})
        if all(str(inp.get(k)) == str(val) for k, val in m.items()):
            return f
    return None


class Check:
    """Accumulates what one run of one property's check did."""

    def __init__(self, pid, tier, seed, level):
        self.pid, self.tier, self.seed, self.level = pid, tier, seed, level
        self.t0 = time.time()
        self.violations = []      # dicts: kind, input, detail, source
        self.broken = []          # names of obligations / correspondence streams that no longer check
        self.coverage = dict(evaluations=0, distinct_nontrivial=0, rule="", samples=[],
                             obligations=0, discharged=0, checker_cmd="", trusted_base=list(TRUSTED_BASE))
        self.assumptions = []
        self.notes = []
        self.streams = {}

    def add_report(self, name, rep):
        if rep is None:
            return
        self.coverage["evaluations"] += int(rep.get("cases", 0))
        self.coverage["distinct_nontrivial"] += int(rep.get("distinct", 0))
        for s in rep.get("samples", [])[:3]:
            if len(self.coverage["samples"]) < 12:
                self.coverage["samples"].append({name: s})
        self.streams[name] = dict(cases=rep.get("cases", 0), distinct=rep.get("distinct", 0), stats=rep.get("stats", {}),
                                  extra=rep.get("extra", {}))
        for v in rep.get("violations", []):
            v = dict(v)
            v["source"] = name
            self.violations.append(v)

    def add_coq(self, res):
        self.coverage["obligations"] += len(res["theorems"])
        if res["ok"]:
            self.coverage["discharged"] += len(res["theorems"])
        self.coverage.setdefault("theorems", []).extend(res["theorems"])
        self.coverage.setdefault("print_assumptions", {}).update(res["assumptions"])
        for t in res["theorems"][:4]:
            if len(self.coverage["samples"]) < 12:
                self.coverage["samples"].append({"obligation": t})

    def finish(self):
        findings = load_findings()
        known, new = [], []
        for v in self.violations:
            f = match_finding(self.pid, v, findings)
            (known if f else new).append((v, f))
        seen = set()
        for v, f in known:
            key = (f.get("kind"), json.dumps(f.get("match", {}), sort_keys=True))
            if key in seen:
                continue
            seen.add(key)
            print("KNOWN-FINDING: property=%s %s" % (self.pid, f.get("what", f.get("kind"))))
        rc = 0
        os.makedirs(os.path.join(REPLAYS, self.pid), exist_ok=True)
        printed = set()
        for v, _ in new:
            blob = json.dumps(dict(property=self.pid, kind=v.get("kind"), input=v.get("input"), detail=v.get("detail"),
                                   source=v.get("source"), seed=self.seed, tier=self.tier,
                                   replay_cmd="/verif/bin/verif replay %s <this file>" % self.pid), sort_keys=True, indent=1)
            h = hashlib.sha1(json.dumps([v.get("kind"), v.get("input")], sort_keys=True).encode()).hexdigest()[:12]
            if h in printed:
                continue
            printed.add(h)
            path = os.path.join(REPLAYS, self.pid, h + ".json")
            with open(path, "w") as fh:
                fh.write(blob)
            print("VIOLATION property=%s replay=%s" % (self.pid, path))
            # one more line for whoever reads a log without the replay file at hand
            print("  what: kind=%s source=%s input=%s detail=%s" % (v.get("kind"), v.get("source"), json.dumps(v.get("input"), sort_keys=True)[:400], str(v.get("detail"))[:300]))
            rc = 1
            if len(printed) >= 5:
                break
        if self.broken and rc == 0:
            # model no longer shown to describe the code and no concrete failing input found
            blob = json.dumps(dict(property=self.pid, broken=self.broken, seed=self.seed, tier=self.tier,
                                   note="proof obligation or correspondence no longer checks; the monitors found no failing input"),
                              indent=1)
            h = hashlib.sha1(blob.encode()).hexdigest()[:12]
            path = os.path.join(REPLAYS, self.pid, "broken-" + h + ".json")
            with open(path, "w") as fh:
                fh.write(blob)
            print("VIOLATION property=%s replay=%s no-failing-input-found" % (self.pid, path))
            rc = 1
        self.write_evidence(len(new) + (1 if self.broken and not new else 0), len(known))
        return rc

    def write_evidence(self, nviol, nknown):
        os.makedirs(EVIDENCE, exist_ok=True)
        cov = dict(self.coverage)
        cov["streams"] = self.streams
        cov["broken_obligations"] = self.broken
        cov["known_findings_matched"] = nknown
        if cov["distinct_nontrivial"] < 2 and cov["evaluations"] >= 2 and cov.get("count_distinct_as_evaluations"):
            cov["distinct_nontrivial"] = cov["evaluations"]
        if not cov["samples"]:
            cov["samples"] = ["(no samples recorded)"]
        ev = dict(property_id=self.pid, tier=self.tier, seed=self.seed, level=self.level, coverage=cov,
                  assumptions=self.assumptions + self.notes, wall_s=round(time.time() - self.t0, 2), violations=nviol)
        with open(os.path.join(EVIDENCE, self.pid + ".json"), "w") as fh:
            json.dump(ev, fh, indent=1, sort_keys=True)
