"""Table-driven property checks: Coq obligations + streams (monitor / coq cases / oracle)."""
import concurrent.futures as cf
import json, os
import common as C


def run_streams(ck, streams, tier, seed, workers=8):
    """streams: list of dicts
         name, kind ('monitor' | 'coqcases' | 'oracle'), args(tier, seed, shard, path) -> harness arg list,
         shards(tier) -> int, ok_marker (coqcases, default 'M = []'), timeout, race (bool)
       monitor : harness REPORT violations are property violations (failing inputs).
       coqcases: harness writes a cases .v file; Coq evaluates the model on it; disagreement = broken correspondence.
       oracle  : harness writes an observation file; the extracted oracle prints MISMATCH lines = violations with inputs."""
    os.makedirs(C.CASES, exist_ok=True)
    jobs = []
    for st in streams:
        for sh in range(st.get("shards", lambda t: 1)(tier)):
            jobs.append((st, sh))

    def one(job):
        st, sh = job
        ext = {"coqcases": ".v", "coqprint": ".v", "oracle": ".txt", "monitor": ".out"}[st["kind"]]
        path = os.path.join(C.CASES, "cases_%s_%s_%d%s" % (ck.pid, st["name"], sh, ext))
        args = st["args"](tier, seed, sh, path)
        cur = path + ".current"
        if os.path.exists(cur):
            os.remove(cur)
        env = dict(st.get("env") or {}, VERIF_CURRENT=cur)
        rc, rep, out, err = C.harness(args, timeout=st.get("timeout", 1500), race=st.get("race", False), env=env)
        res = dict(st=st, rep=rep, broken=None, extra_viol=[])
        if rep is None:
            res["broken"] = "%s: harness %s failed (rc=%s): %s" % (st["name"], args[0], rc, (out + err)[-600:])
            # the harness process died (a Go panic in an engine goroutine cannot be recovered by the caller):
            # the input it was working on is the failing input
            if os.path.exists(cur) and ("panic:" in err or "fatal error:" in err or "goroutine " in err):
                try:
                    inp = json.load(open(cur))
                except Exception:
                    inp = {"unreadable": cur}
                pm = [l for l in err.splitlines() if l.startswith("panic:") or l.startswith("fatal error:")]
                frames = [l.strip() for l in err.splitlines() if "/internal/" in l and ".go:" in l][:4]
                res["rep"] = dict(command=args[0], cases=0, distinct=0, stats={}, samples=[], extra={},
                                  violations=[dict(kind="engine-crashes", input=inp, detail=("; ".join(pm[:2]) + " at " + " <- ".join(frames))[:700])])
                res["broken"] = None
            return res
        if st.get("race") and "WARNING: DATA RACE" in err:
            # the race detector saw two unsynchronised accesses; only reports with a frame inside the engine count
            # (the first such report is kept: goroutine stacks, engine frames only)
            for block in err.split("WARNING: DATA RACE")[1:]:
                block = block.split("==================")[0]
                frames = [l.strip() for l in block.splitlines() if "/internal/" in l and ".go:" in l and "/harness/" not in l]
                if not frames:
                    continue
                try:
                    inp = json.load(open(cur)) if os.path.exists(cur) else {}
                except Exception:
                    inp = {}
                inp = dict(inp, harness_command=" ".join(str(a) for a in args), note="unsynchronised accesses reported by the Go race detector while this input was running")
                heads = [l.strip() for l in block.splitlines() if l.startswith(("Read at", "Write at", "Previous read at", "Previous write at"))]
                res["extra_viol"].append(dict(kind="data-race", input=inp, detail=("; ".join(heads[:2]) + " :: " + " <- ".join(frames[:6]))[:900]))
                break
        if st["kind"] == "coqcases":
            ok, cout = C.coq_eval_cases(path, timeout=st.get("coq_timeout", 2400))
            markers = st.get("ok_markers") or [st.get("ok_marker", "M = []")]
            flat = " ".join(cout.split())
            if not ok or not all(mk in flat for mk in markers):
                res["broken"] = "correspondence %s (model vs implementation) disagrees, see %s: %s" % (st["name"], path, cout[-700:])
        elif st["kind"] == "coqprint":
            # the cases file ends with `Eval vm_compute in (...)` printing a list (one element per case);
            # <path>.expected holds what the real engine produced, one line per case, same syntax after
            # normalisation (numbers and brackets only)
            ok, cout = C.coq_eval_cases(path, timeout=st.get("coq_timeout", 2400))
            if not ok:
                res["broken"] = "correspondence %s: the model could not be evaluated, see %s: %s" % (st["name"], path, cout[-700:])
            else:
                import re as _re
                body = cout[cout.index("= ") + 2:] if "= " in cout else ""
                body = body[:body.rindex(":")] if ":" in body else body
                toks = _re.findall(r"-?\d+|\[|\]|true|false|Some|None", body)
                got_lines, depth, cur = [], 0, []
                for t in toks:
                    if t == "[":
                        depth += 1
                        if depth >= 2:
                            cur.append(t)
                    elif t == "]":
                        if depth >= 2:
                            cur.append(t)
                        depth -= 1
                        if depth == 1:
                            got_lines.append(" ".join(cur))
                            cur = []
                    elif depth >= 2:
                        cur.append(t)
                    elif depth == 1:
                        got_lines.append(t)
                exp_lines = [" ".join(_re.findall(r"-?\d+|\[|\]|true|false|Some|None", l)) for l in open(path + ".expected").read().splitlines() if l.strip()]
                bad = [i for i in range(max(len(exp_lines), len(got_lines))) if i >= len(exp_lines) or i >= len(got_lines) or exp_lines[i] != got_lines[i]]
                rep.setdefault("stats", {})["model_cases_compared"] = len(exp_lines)
                if bad:
                    i = bad[0]
                    res["broken"] = "correspondence %s: model and implementation differ on %d of %d cases, first case %d of %s: model=%s engine=%s" % (
                        st["name"], len(bad), len(exp_lines), i, path, (got_lines[i] if i < len(got_lines) else "<missing>")[:300], (exp_lines[i] if i < len(exp_lines) else "<missing>")[:300])
                    # targeted search for a failing input: the operation sequences on which model and engine disagree are
                    # run again on the real engine with the property's own predicates checked at every step
                    if st.get("replay_kinds") and os.path.exists(path + ".json"):
                        for bi in bad[:6]:
                            rc3, rep3, _o, _e = C.harness(["pos-replay", path + ".json", bi], timeout=300)
                            for v in (rep3 or {}).get("violations", []):
                                if v["kind"] in st["replay_kinds"]:
                                    res["extra_viol"].append(v)
        elif st["kind"] == "oracle":
            rc2, oout, oerr = C.run("%s < %s" % (os.path.join(C.BUILD, "oracle"), path), timeout=st.get("oracle_timeout", 2400))
            done = [l for l in oout.splitlines() if l.startswith("DONE|")]
            if rc2 != 0 or not done:
                res["broken"] = "oracle failed on %s: %s" % (path, (oout + oerr)[-500:])
            else:
                _, npos, nskip, nbad = done[0].split("|")
                rep.setdefault("stats", {})["oracle_positions"] = int(npos)
                rep["stats"]["oracle_skipped_not_legal"] = int(nskip)
                for l in oout.splitlines():
                    if l.startswith("MISMATCH|"):
                        f = l.split("|")
                        kind = f[1]
                        if st.get("oracle_kinds") and kind not in st["oracle_kinds"]:
                            continue
                        res["extra_viol"].append(dict(kind="spec-vs-engine:" + kind, input=dict(fen=f[2]), detail="|".join(f[3:])[:600]))
        return res

    with cf.ThreadPoolExecutor(max_workers=workers) as ex:
        for res in ex.map(one, jobs):
            st = res["st"]
            rep = res["rep"]
            if rep is not None:
                if st.get("ignore_violations"):
                    rep = dict(rep, violations=[])
                if st.get("violation_kinds"):
                    rep = dict(rep, violations=[v for v in rep.get("violations", []) if v["kind"] in st["violation_kinds"] or v["kind"] == "engine-crashes"])
                rep["violations"] = rep.get("violations", []) + res["extra_viol"]
                ck.add_report(st["name"], rep)
            if res["broken"]:
                ck.broken.append(res["broken"])


def generic_check(pid, level, tier, seed, rule, streams, coq=True, checker_cmd=None, notes=(), coqchk=True, extra=None):
    ck = C.Check(pid, tier, seed, level)
    ck.coverage["rule"] = rule
    ck.coverage["checker_cmd"] = checker_cmd or ("make -C /verif/coq properties/%s.vo (coqc 8.16.1, full .vo); correspondence/monitor streams via /verif/build/verifh" % pid)
    ok, msg = C.build_harness()
    if not ok:
        ck.broken.append("harness build against /repo failed: " + msg[-800:])
        return ck.finish()
    if any(st.get("race") for st in streams):
        ok, msg = C.build_harness(race=True)
        if not ok:
            ck.broken.append("race harness build failed: " + msg[-800:])
    ok, msg = C.regen_tables()
    if not ok:
        ck.broken.append("regeneration of coq/gen/Tables_gen.v failed: " + msg[-500:])
    ok, msg = C.regen_sites()
    if not ok:
        ck.broken.append("source-site recogniser failed: " + msg[-500:])
    elif "NOT RECOGNISED: site_%s_" % pid in msg:
        ck.notes.append("source sites of the model no longer recognised: " + " ".join(l for l in msg.splitlines() if ("site_%s_" % pid) in l))
    if coq:
        res = C.coq_property(pid)
        ck.add_coq(res)
        if not res["ok"]:
            ck.broken.append("Coq obligations of properties/%s.v no longer check: %s" % (pid, res["output"][-900:]))
    run_streams(ck, streams, tier, seed)
    if ck.broken and not ck.violations and tier == "quick":
        # an obligation or the correspondence broke: search harder for a concrete failing input
        # (monitor streams only, thorough-sized, bounded time)
        esc = []
        for st in streams:
            if st["kind"] in ("monitor", "oracle"):
                e = dict(st)
                e["name"] = st["name"] + "_escalated"
                e["shards"] = (lambda f: (lambda t: min(8, f("thorough"))))(st.get("shards", lambda t: 1))
                e["args"] = (lambda f: (lambda t, s, sh, path: f("thorough", s + 7919, sh, path)))(st["args"])
                e["timeout"] = 240
                e["oracle_timeout"] = 240
                e["optional"] = True
                esc.append(e)
        if esc:
            nb = len(ck.broken)
            run_streams(ck, esc, "thorough", seed)
            # a timed-out escalation run is not itself a broken obligation
            ck.broken = ck.broken[:nb] + [b for b in ck.broken[nb:] if "_escalated" not in b]
    if extra:
        extra(ck, tier, seed)
    if coq and coqchk and tier == "thorough" and not os.environ.get("VERIF_NO_COQCHK"):
        rc, out, err = C.run("cd %s && coqchk -silent -o -R theories FG -R gen FG.gen -R properties FG.props FG.props.%s" % (C.COQ, pid), timeout=3600)
        ck.coverage["coqchk"] = (out + err)[-1500:]
        if rc == 124:
            ck.notes.append("coqchk did not finish within its time budget on this machine (not a failure; the coqc build above is the check)")
        elif rc != 0:
            ck.broken.append("coqchk failed: " + (out + err)[-300:])
    for n in notes:
        ck.notes.append(n)
    return ck.finish()


def generic_replay(pid, path):
    """Replays a violation file: prints it, re-runs the property's check with the recorded tier and seed
    (every stream derives its inputs from the seed) and reports whether the same violation (same kind and
    input, hence the same file name) shows again.  Exit 1 = reproduced, 0 = not reproduced (fixed code or a
    timing-dependent violation)."""
    import subprocess, sys
    v = json.load(open(path))
    print(json.dumps(v, indent=1)[:4000])
    name = os.path.basename(path)
    env = dict(os.environ, VERIF_SEED=str(v.get("seed", 1)), VERIF_NO_COQCHK="1")
    p = subprocess.run([sys.executable, os.path.join(C.VERIF, "bin", "verif"), "check", pid, "--tier", v.get("tier", "quick")],
                       capture_output=True, text=True, env=env)
    lines = [l for l in p.stdout.splitlines() if l.startswith("VIOLATION") or l.startswith("KNOWN-FINDING")]
    again = any(name in l for l in lines)
    print("replay: %s (%d violation lines in the re-run)" % ("REPRODUCED" if again else "not reproduced", len([l for l in lines if l.startswith("VIOLATION")])))
    for l in lines[:10]:
        print("  " + l)
    return 1 if again else 0
