#!/usr/bin/env python3
"""Generates coq/properties/<PID>.v: every listed lemma is re-stated with its full type (as printed by
Coq) and closed by `exact`, followed by Print Assumptions.  If a printed statement does not re-parse
the theorem is stated as `ltac:(let t := type of L in exact t)` (same type, not spelled out).
usage: mkprops.py PID "header line(s)" "intro comment" name1 name2 ...   (names may be `name!` = also Print Assumptions)"""
import os, re, subprocess, sys, tempfile

COQ = "/verif/coq"
ARGS = ["-R", COQ + "/theories", "FG", "-R", COQ + "/gen", "FG.gen"]


def coq_types(header, names):
    src = header + "\nSet Printing Width 110.\nSet Printing Depth 500.\n" + "".join("Check %s.\n" % n for n in names)
    with tempfile.NamedTemporaryFile("w", suffix=".v", delete=False, dir="/tmp") as f:
        f.write(src)
        path = f.name
    out = subprocess.run(["coqc"] + ARGS + [path], capture_output=True, text=True, cwd="/tmp").stdout
    for ext in (".v", ".vo", ".glob", ".vok", ".vos"):
        try:
            os.remove(path[:-2] + ext)
        except OSError:
            pass
    res = {}
    for n in names:
        m = re.search(r"^%s\s*\n?\s*:\s*(.*?)(?=^\w[\w']*\s*\n?\s*:\s|\Z)" % re.escape(n), out, re.S | re.M)
        if m:
            res[n] = m.group(1).strip()
    return res


def compiles(text):
    with tempfile.NamedTemporaryFile("w", suffix=".v", delete=False, dir="/tmp") as f:
        f.write(text)
        path = f.name
    r = subprocess.run(["coqc"] + ARGS + [path], capture_output=True, text=True, cwd="/tmp")
    for ext in (".v", ".vo", ".glob", ".vok", ".vos"):
        try:
            os.remove(path[:-2] + ext)
        except OSError:
            pass
    return r.returncode == 0, r.stdout + r.stderr


def main():
    pid, header, intro = sys.argv[1], sys.argv[2], sys.argv[3]
    raw = sys.argv[4:]
    names = [n.rstrip("!") for n in raw]
    pa = [n.rstrip("!") for n in raw if n.endswith("!")] or names[:6]
    types = coq_types(header, names)
    body = []
    for n in names:
        t = types.get(n)
        stated = None
        if t:
            cand = "Theorem %s_%s :\n  %s.\nProof. exact %s. Qed.\n" % (pid, n.split(".")[-1], t.replace("\n", "\n  "), n)
            ok, _ = compiles(header + "\n" + cand)
            if ok:
                stated = cand
        if stated is None:
            stated = "(* statement as proved in the theory file (its printed form does not re-parse verbatim) *)\nTheorem %s_%s : ltac:(let t := type of %s in exact t).\nProof. exact %s. Qed.\n" % (pid, n.split(".")[-1], n, n)
            sys.stderr.write("note: %s stated via type-of\n" % n)
        body.append(stated)
    sites = ""
    if os.environ.get("MKPROPS_SITES"):
        sites = ("\n(* tie to the source: every statement pattern the model transcribes is still recognised, in order,\n"
                 "   in /repo's current source (gen/Sites_gen.v is regenerated on every run by tools/sites.py) *)\n"
                 "From FG.gen Require Import Sites_gen.\nTheorem %s_sites_recognised : forallb (fun b => b) sites_%s = true.\nProof. vm_compute. reflexivity. Qed.\n" % (pid, pid))
    text = "(** %s *)\n%s\n\n%s\n%s%s" % (intro, header, "\n".join(body), "".join("Print Assumptions %s_%s.\n" % (pid, n.split(".")[-1]) for n in pa), sites)
    if os.environ.get("MKPROPS_APPEND"):
        old = open(os.path.join(COQ, "properties", pid + ".v")).read()
        mark = "\n(* ---- appended by tools/mkprops.py: " + intro.split(":")[0] + " ---- *)\n"
        if mark in old:
            old = old[:old.index(mark)]
        text = old.rstrip("\n") + "\n" + mark + text
    open(os.path.join(COQ, "properties", pid + ".v"), "w").write(text)
    ok, out = compiles(text)
    print(pid, "ok" if ok else "FAILED", len(names), "theorems")
    if not ok:
        print(out[-1500:])


main()
