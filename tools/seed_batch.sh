#!/bin/sh
# seed_batch.sh <id:dir> ... : verifies seeds one after the other (they patch /repo temporarily)
for x in "$@"; do
  id=${x%%:*}; dir=${x#*:}
  flock /tmp/repo_patch.lock python3 /verif/tools/seed_verify.py "$id" "$dir" > /tmp/seedverify_$id.out 2>&1
done
echo BATCH-DONE
