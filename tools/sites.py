#!/usr/bin/env python3
"""Source-site recogniser (translator for control-flow models).

The hand-written Coq models of control flow (PV buffers, terminal classification, lifecycle, cache
locking ...) transcribe specific statements of the Go source in a specific order.  This tool
re-recognises every such site in /repo's current source and emits coq/gen/Sites_gen.v with one
boolean per site; coq/properties/Cxx.v proves `sites_Cxx = true` by reflexivity, so a site that can
no longer be recognised (removed, reordered, rewritten) breaks a proof obligation of the property.
A site = (file, function, ordered list of regexes that must match in this order inside the body,
optional regexes that must NOT occur)."""
import os, re, sys

REPO = sys.argv[1] if len(sys.argv) > 1 else "/repo"
OUT = sys.argv[2] if len(sys.argv) > 2 else "/verif/coq/gen/Sites_gen.v"


def func_body(src, sig):
    m = re.search(sig, src)
    if not m:
        return None
    i = src.index("{", m.end() - 1) if src[m.end() - 1] != "{" else m.end() - 1
    depth, j = 0, i
    in_str = None
    while j < len(src):
        c = src[j]
        if in_str:
            if c == "\\" and in_str != "`":
                j += 1
            elif c == in_str:
                in_str = None
        elif c in "\"`'":
            in_str = c
        elif c == "/" and src[j:j + 2] == "//":
            j = src.index("\n", j)
            continue
        elif c == "{":
            depth += 1
        elif c == "}":
            depth -= 1
            if depth == 0:
                return src[i:j + 1]
        j += 1
    return None


def strip_comments(s):
    return re.sub(r"//[^\n]*", "", s)


SITES = {
 # ---------------- C05: PV buffers
 "C05": [
  ("search_clears_pv_on_entry", "internal/search/alphabeta.go", r"func \(s \*Search\) search\(",
   [r"s\.pv\[ply\]\.Clear\(\)", r"if s\.stopConditions\(\)\s*\{\s*return ValueNA", r"if depth == 0 \|\| ply >= MaxDepth", r"UseMDP"], []),
  ("qsearch_clears_pv_on_entry", "internal/search/alphabeta.go", r"func \(s \*Search\) qsearch\(",
   [r"s\.pv\[ply\]\.Clear\(\)", r"if !Settings\.Search\.UseQuiescence \|\| ply >= MaxDepth\s*\{\s*return s\.evaluate", r"UseMDP", r"UseQSStandpat"], []),
  ("search_draw_child_clears_next_pv", "internal/search/alphabeta.go", r"func \(s \*Search\) search\(",
   [r"if s\.checkDrawRepAnd50\(p, 2\)\s*\{\s*value = ValueDraw\s*s\.pv\[ply\+1\]\.Clear\(\)"], []),
  ("qsearch_draw_child_clears_next_pv", "internal/search/alphabeta.go", r"func \(s \*Search\) qsearch\(",
   [r"if hasCheck && s\.checkDrawRepAnd50\(p, 2\)\s*\{\s*value = ValueDraw\s*s\.pv\[ply\+1\]\.Clear\(\)"], []),
  ("root_draw_child_clears_pv1", "internal/search/alphabeta.go", r"func \(s \*Search\) rootSearch\(",
   [r"if s\.checkDrawRepAnd50\(p, 2\)\s*\{\s*value = ValueDraw\s*s\.pv\[1\]\.Clear\(\)", r"if s\.stopConditions\(\) && depth > 1\s*\{\s*return", r"savePV\(m, s\.pv\[1\], s\.pv\[0\]\)"], []),
  ("search_savepv_only_on_alpha_improvement", "internal/search/alphabeta.go", r"func \(s \*Search\) search\(",
   [r"if value > bestNodeValue\s*\{", r"if value > alpha\s*\{", r"if value >= beta\s*\{", r"savePV\(move, s\.pv\[ply\+1\], s\.pv\[ply\]\)"], []),
  ("savepv_copies", "internal/search/alphabeta.go", r"func savePV\(",
   [r"dest\.Clear\(\)", r"dest\.PushBack\(move\)", r"\*dest = append\(\*dest, \*src\.\.\.\)"], []),
  ("moves_checked_legal_after_domove", "internal/search/alphabeta.go", r"func \(s \*Search\) search\(",
   [r"p\.DoMove\(move\)\s*if !p\.WasLegalMove\(\)\s*\{\s*p\.UndoMove\(\)\s*continue"], []),
  ("qsearch_moves_checked_legal_after_domove", "internal/search/alphabeta.go", r"func \(s \*Search\) qsearch\(",
   [r"p\.DoMove\(move\)\s*if !p\.WasLegalMove\(\)\s*\{\s*p\.UndoMove\(\)\s*continue"], []),
  ("root_moves_are_legal_moves", "internal/search/search.go", r"func \(s \*Search\) iterativeDeepening\(",
   [r"s\.rootMoves = s\.mg\[0\]\.GenerateLegalMoves\(position, movegen\.GenAll\)", r"if s\.rootMoves\.Len\(\) == 0", r"BestMove:\s*s\.pv\[0\]\.At\(0\)\.MoveOf\(\)"],
   [r"result = &Result\{BestValue: ValueDraw\}\s*return result\s*\}\s*// generate"]),
  ("ponder_from_pv_or_validated_hash", "internal/search/search.go", r"func \(s \*Search\) iterativeDeepening\(",
   [r"if s\.pv\[0\]\.Len\(\) > 1\s*\{\s*result\.PonderMove = s\.pv\[0\]\.At\(1\)\.MoveOf\(\)", r"ValidateMove\(position, ttEntry\.Move\.MoveOf\(\)\)"], []),
  ("search_position_passed_by_value", "internal/search/search.go", r"func \(s \*Search\) StartSearch\(p position\.Position, sl Limits\)",
   [r"go s\.run\(&p, &sl\)"], []),
  # iid_ok: the IID re-search of the same node (same ply) runs at depth - IIDReduction (C05_iid_reduction_positive: >= 1)
  ("iid_reduces_depth", "internal/search/alphabeta.go", r"func \(s \*Search\) search\(",
   [r"if Settings\.Search\.UseIID\s*\{", r"newDepth := depth - Settings\.Search\.IIDReduction\s*if newDepth < 0 \{\s*newDepth = 0\s*\}\s*s\.search\(p, newDepth, ply, alpha, beta, isPV, true\)",
    r"myMg\.ResetOnDemand\(\)"],
   [r"s\.search\(p, depth, ply,"]),
  # first_cmp: the first root move is compared with ValueNA (C05_value_na_below_every_value) and saved to pv[0]
  ("root_first_move_beats_na", "internal/search/alphabeta.go", r"func \(s \*Search\) rootSearch\(",
   [r"bestNodeValue := ValueNA\s*var value Value\s*for i, m := range \*s\.rootMoves\s*\{", r"value = ValueDraw", r"value = -s\.search\(p, depth-1, 1, -beta, -alpha, true, true\)",
    r"if value > bestNodeValue\s*\{\s*bestNodeValue = value\s*savePV\(m, s\.pv\[1\], s\.pv\[0\]\)"],
   [r"bestNodeValue = [^v]", r"bestNodeValue [-+*/]="]),
 ],
 # ---------------- C06: what ends a line inside the tree (the game-tree model has exactly these leaves)
 "C06": [
  ("root_child_is_draw_only_by_repetition_or_clock", "internal/search/alphabeta.go", r"func \(s \*Search\) rootSearch\(",
   [r"if s\.checkDrawRepAnd50\(p, 2\)\s*\{\s*value = ValueDraw", r"\}\s*else\s*\{"], []),
  ("search_child_is_draw_only_by_repetition_or_clock", "internal/search/alphabeta.go", r"func \(s \*Search\) search\(",
   [r"p\.DoMove\(move\)", r"if s\.checkDrawRepAnd50\(p, 2\)\s*\{\s*value = ValueDraw", r"\}\s*else\s*\{"], []),
  ("qsearch_child_is_draw_only_in_check_by_repetition_or_clock", "internal/search/alphabeta.go", r"func \(s \*Search\) qsearch\(",
   [r"p\.DoMove\(move\)", r"if hasCheck && s\.checkDrawRepAnd50\(p, 2\)\s*\{\s*value = ValueDraw", r"\}\s*else\s*\{\s*value = -s\.qsearch\(p, ply\+1, -beta, -alpha, isPV\)"], []),
  ("draw_test_is_repetition_or_clock", "internal/search/search.go", r"func \(s \*Search\) checkDrawRepAnd50\(",
   [r"if p\.CheckRepetitions\(i\) \|\| p\.HalfMoveClock\(\) >= 100\s*\{\s*return true\s*\}\s*return false"], []),
  ("mate_distance_pruning_search", "internal/search/alphabeta.go", r"func \(s \*Search\) search\(",
   [r"if Settings\.Search\.UseMDP\s*\{\s*alpha = Max\(alpha, -ValueCheckMate\+Value\(ply\)\)\s*beta = Min\(beta, ValueCheckMate-Value\(ply\)\)\s*if alpha >= beta\s*\{\s*s\.statistics\.Mdp\+\+\s*return alpha\s*\}\s*\}"], []),
  ("mate_distance_pruning_qsearch", "internal/search/alphabeta.go", r"func \(s \*Search\) qsearch\(",
   [r"if Settings\.Search\.UseMDP\s*\{\s*alpha = Max\(alpha, -ValueCheckMate\+Value\(ply\)\)\s*beta = Min\(beta, ValueCheckMate-Value\(ply\)\)\s*if alpha >= beta\s*\{\s*s\.statistics\.Mdp\+\+\s*return alpha\s*\}\s*\}"], []),
  ("stand_pat_is_a_lower_bound_only_out_of_check", "internal/search/alphabeta.go", r"func \(s \*Search\) qsearch\(",
   [r"if !hasCheck\s*\{", r"staticEval = s\.evaluate\(p, ply\)",
    r"if Settings\.Search\.UseQSStandpat && staticEval > alpha\s*\{\s*if staticEval >= beta\s*\{\s*s\.statistics\.StandpatCuts\+\+\s*return staticEval\s*\}\s*alpha = staticEval\s*\}\s*bestNodeValue = staticEval\s*\}"], []),
  ("pvs_null_window_then_full_window_research", "internal/search/alphabeta.go", r"func \(s \*Search\) search\(",
   [r"if !Settings\.Search\.UsePVS \|\| movesSearched == 0\s*\{\s*value = -s\.search\(p, newDepth, ply\+1, -beta, -alpha, true, true\)\s*\}\s*else\s*\{",
    r"value = -s\.search\(p, lmrDepth, ply\+1, -alpha-1, -alpha, false, true\)",
    r"if value > alpha && !s\.stopConditions\(\)\s*\{\s*if lmrDepth < newDepth\s*\{\s*s\.statistics\.LmrResearches\+\+\s*value = -s\.search\(p, newDepth, ply\+1, -beta, -alpha, true, true\)\s*\}\s*else if value < beta\s*\{\s*s\.statistics\.PvsResearches\+\+\s*value = -s\.search\(p, newDepth, ply\+1, -beta, -alpha, true, true\)"], []),
  ("fail_soft_update_beta_cut_alpha_raise", "internal/search/alphabeta.go", r"func \(s \*Search\) search\(",
   [r"if value > bestNodeValue\s*\{\s*bestNodeValue = value\s*bestNodeMove = move\s*if value > alpha\s*\{\s*if value >= beta\s*\{", r"ttType = BETA\s*break\s*\}",
    r"savePV\(move, s\.pv\[ply\+1\], s\.pv\[ply\]\)\s*alpha = value\s*ttType = EXACT"], []),
  ("mate_and_stalemate_values", "internal/search/alphabeta.go", r"func \(s \*Search\) search\(",
   [r"if p\.HasCheck\(\)\s*\{\s*s\.statistics\.Checkmates\+\+\s*bestNodeValue = -ValueCheckMate \+ Value\(ply\)", r"s\.statistics\.Stalemates\+\+\s*bestNodeValue = ValueDraw"], []),
  ("leaf_is_evaluation_or_quiescence", "internal/search/alphabeta.go", r"func \(s \*Search\) search\(",
   [r"if depth == 0 \|\| ply >= MaxDepth\s*\{\s*return s\.qsearch\(p, ply, alpha, beta, isPV\)"], []),
  # AlphaBeta.root_rel / root_fn: every iteration searches the root with the full window (ValueMin, ValueMax) =
  # (-MATE, MATE) (C06_model_constants_dumped); alpha / beta are assigned nowhere else in iterativeDeepening
  ("root_window_is_full", "internal/search/search.go", r"func \(s \*Search\) iterativeDeepening\(",
   [r"alpha := ValueMin\s*beta := ValueMax\s*for iterationDepth := 0; iterationDepth < maxDepth;\s*\{", r"s\.rootSearch\(position, iterationDepth, alpha, beta\)"],
   [r"\b(alpha|beta)\s*[-+*/]?=[^=]", r"\b(alpha|beta),\s*\w+\s*:?=", r"UseAspiration", r"UseMTDf", r"&(alpha|beta)\b"]),
 ],
 # ---------------- C07: terminal classification
 "C07": [
  ("futility_counts_pruned_moves", "internal/search/alphabeta.go", r"func \(s \*Search\) search\(",
   [r"movesPruned := 0", r"!hasCheck &&", r"if Settings\.Search\.UseFP && depth < 7", r"movesPruned\+\+\s*continue", r"if Settings\.Search\.UseLmp\s*\{\s*if movesSearched >= LmpMovesSearched\(depth\)",
    r"p\.DoMove\(move\)\s*if !p\.WasLegalMove\(\)", r"movesSearched\+\+"], []),
  ("terminal_needs_no_search_and_no_legal_move", "internal/search/alphabeta.go", r"func \(s \*Search\) search\(",
   [r"if movesSearched == 0 && !s\.stopConditions\(\) &&\s*\(movesPruned == 0 \|\| !myMg\.HasLegalMove\(p\)\)\s*\{\s*if p\.HasCheck\(\)", r"-ValueCheckMate \+ Value\(ply\)", r"bestNodeValue = ValueDraw"], []),
  ("qsearch_mate_only_in_check", "internal/search/alphabeta.go", r"func \(s \*Search\) qsearch\(",
   [r"UseQFP &&", r"!hasCheck &&\s*!givesCheck", r"if !hasCheck && !s\.goodCapture\(p, move\)\s*\{\s*continue", r"if movesSearched == 0 && !s\.stopConditions\(\)\s*\{[^}]*if p\.HasCheck\(\)\s*\{[^}]*-ValueCheckMate \+ Value\(ply\)"], []),
  ("qsearch_all_moves_when_in_check", "internal/search/alphabeta.go", r"func \(s \*Search\) qsearch\(",
   [r"if hasCheck\s*\{[^}]*mode = movegen\.GenAll\s*\}\s*else\s*\{\s*mode = movegen\.GenNonQuiet"], []),
  ("root_terminal_reported", "internal/search/search.go", r"func \(s \*Search\) iterativeDeepening\(",
   [r"if s\.rootMoves\.Len\(\) == 0\s*\{\s*if position\.HasCheck\(\)", r"result = &Result\{BestValue: -ValueCheckMate\}", r"result = &Result\{BestValue: ValueDraw\}"], []),
  # (site lmp_threshold_positive on the init loop of params.go was dropped: C07_lmp_threshold_positive computes on
  #  the thresholds dumped from the running engine, the search reads them through LmpMovesSearched(depth) - first site)
  # the generator of this ply is reset once, after IID (which uses the same generator) and before the move loop,
  # and nowhere inside the loop: every move of the position is delivered
  ("generator_reset_before_loop", "internal/search/alphabeta.go", r"func \(s \*Search\) search\(",
   [r"s\.search\(p, \w+, ply, alpha, beta, isPV, true\)", r"myMg := s\.mg\[ply\]\s*myMg\.ResetOnDemand\(\)",
    r"for move := myMg\.GetNextMove\(p, movegen\.GenAll, hasCheck\);\s*move != MoveNone; move = myMg\.GetNextMove\(p, movegen\.GenAll, hasCheck\)\s*\{"],
   [r"myMg\.ResetOnDemand\(\).*myMg\.ResetOnDemand\(\)", r"myMg\.GetNextMove.*myMg\.ResetOnDemand\(\)", r"myMg = "]),
  ("qsearch_generator_reset_before_loop", "internal/search/alphabeta.go", r"func \(s \*Search\) qsearch\(",
   [r"myMg := s\.mg\[ply\]\s*myMg\.ResetOnDemand\(\)",
    r"for move := myMg\.GetNextMove\(p, mode, hasCheck\);\s*move != MoveNone; move = myMg\.GetNextMove\(p, mode, hasCheck\)\s*\{"],
   [r"myMg\.ResetOnDemand\(\).*myMg\.ResetOnDemand\(\)", r"myMg\.GetNextMove.*myMg\.ResetOnDemand\(\)", r"myMg = "]),
  # C07_terminal_sound_engine_thresholds: the move loop runs with 1 <= depth: depth 0 leaves before the loop and
  # every depth handed to a recursive call is depth-1 (>= 0), depth-1+extension, or clamped at 0
  ("depth_never_negative", "internal/search/alphabeta.go", r"func \(s \*Search\) search\(",
   [r"if depth == 0 \|\| ply >= MaxDepth\s*\{\s*return s\.qsearch\(",
    r"newDepth := depth - r - 1\s*if newDepth < 0 \{\s*newDepth = 0\s*\}", r"-s\.search\(p, newDepth, ply\+1, -beta, -beta\+1, false, false\)",
    r"newDepth := depth - Settings\.Search\.IIDReduction\s*if newDepth < 0 \{\s*newDepth = 0\s*\}\s*s\.search\(p, newDepth, ply,",
    r"newDepth := depth - 1\s*lmrDepth := newDepth\s*extension := 0", r"extension = 1", r"newDepth \+= extension",
    r"lmrDepth -= LmrReduction\(depth, movesSearched\)", r"if lmrDepth < 0 \{\s*lmrDepth = 0\s*\}",
    r"value = -s\.search\(p, newDepth, ply\+1, -beta, -alpha, true, true\)", r"value = -s\.search\(p, lmrDepth, ply\+1, -alpha-1, -alpha, false, true\)"],
   [r"\bdepth\s*(--|[-+*/]?=[^=])", r"newDepth\s*(--|-=)", r"extension = (?!1\b)", r"s\.search\(p, (?!newDepth,|lmrDepth,)"]),
 ],
 # ---------------- C08: on-demand generation is started from a reset generator (od_start_ok) in both move loops
 "C08": [
  ("generator_reset_before_loop", "internal/search/alphabeta.go", r"func \(s \*Search\) search\(",
   [r"s\.search\(p, \w+, ply, alpha, beta, isPV, true\)", r"myMg := s\.mg\[ply\]\s*myMg\.ResetOnDemand\(\)",
    r"for move := myMg\.GetNextMove\(p, movegen\.GenAll, hasCheck\);\s*move != MoveNone; move = myMg\.GetNextMove\(p, movegen\.GenAll, hasCheck\)\s*\{"],
   [r"myMg\.ResetOnDemand\(\).*myMg\.ResetOnDemand\(\)", r"myMg\.GetNextMove.*myMg\.ResetOnDemand\(\)", r"myMg = "]),
  ("qsearch_generator_reset_before_loop", "internal/search/alphabeta.go", r"func \(s \*Search\) qsearch\(",
   [r"myMg := s\.mg\[ply\]\s*myMg\.ResetOnDemand\(\)",
    r"for move := myMg\.GetNextMove\(p, mode, hasCheck\);\s*move != MoveNone; move = myMg\.GetNextMove\(p, mode, hasCheck\)\s*\{"],
   [r"myMg\.ResetOnDemand\(\).*myMg\.ResetOnDemand\(\)", r"myMg\.GetNextMove.*myMg\.ResetOnDemand\(\)", r"myMg = "]),
 ],
 # ---------------- C14 / C12: lifecycle
 "C14": [
  ("start_rejects_while_running_before_touching_state", "internal/search/search.go", r"func \(s \*Search\) StartSearch\(",
   [r"if !s\.isRunning\.TryAcquire\(1\)\s*\{[^}]*return\s*\}", r"s\.initSemaphore\.Acquire", r"s\.currentPosition = &p", r"s\.searchLimits = &sl", r"s\.stopFlag = util\.NewBool\(false\)", r"go s\.run\(&p, &sl\)", r"s\.initSemaphore\.Acquire", r"s\.initSemaphore\.Release\(1\)"], []),
  ("run_releases_semaphores", "internal/search/search.go", r"func \(s \*Search\) run\(",
   [r"released := false\s*defer func\(\) \{\s*if !released \{\s*s\.isRunning\.Release\(1\)", r"s\.initSemaphore\.Release\(1\)", r"s\.lastSearchResult = searchResult\s*s\.hasResult = true", r"s\.stopFlag\.Store\(true\)", r"released = true\s*s\.isRunning\.Release\(1\)\s*s\.sendResult\(searchResult\)"], [r"s\.isRunning\.TryAcquire"]),
  ("timer_bound_to_its_search", "internal/search/search.go", r"func \(s \*Search\) startTimer\(",
   [r"stop := s\.stopFlag", r"go func\(\)", r"s\.loadTimeLimit\(\)\+s\.loadExtraTime\(\) && !stop\.Load\(\)", r"time\.Sleep\(5 \* time\.Millisecond\)", r"stop\.Store\(true\)"], [r"s\.stopFlag\.Store", r"s\.stopFlag = "]),
  ("stop_sets_token_and_waits", "internal/search/search.go", r"func \(s \*Search\) StopSearch\(",
   [r"s\.stopFlag\.Store\(true\)", r"s\.WaitWhileSearching\(\)"], []),
  ("infinite_waits_for_stop", "internal/search/search.go", r"func \(s \*Search\) run\(",
   [r"for !s\.stopFlag\.Load\(\) && \(s\.searchLimits\.Ponder \|\| s\.searchLimits\.Infinite\)\s*\{\s*time\.Sleep"], []),
  ("node_limit_is_not_a_stop_request", "internal/search/search.go", r"func \(s \*Search\) stopConditions\(",
   [r"if s\.stopFlag\.Load\(\)\s*\{\s*return true\s*\}", r"if s\.searchLimits\.Nodes > 0 && s\.nodesVisited >= s\.searchLimits\.Nodes\s*\{\s*return true\s*\}", r"return false"], [r"\.Store\("]),
  ("no_timer_for_ponder_or_infinite", "internal/search/search.go", r"func \(s \*Search\) run\(",
   [r"if s\.searchLimits\.TimeControl && !s\.searchLimits\.Ponder && !s\.searchLimits\.Infinite\s*\{\s*s\.startTimer\(\)"], []),
  ("uci_output_serialised", "internal/uci/uci.go", r"func \(u \*UciHandler\) send\(",
   [r"u\.sendLock\.Lock\(\)", r"defer u\.sendLock\.Unlock\(\)", r"u\.OutIo\.WriteString", r"u\.OutIo\.Flush\(\)"], []),
  ("time_limits_atomic", "internal/search/search.go", r"func \(s \*Search\) loadTimeLimit\(",
   [r"atomic\.LoadInt64"], []),
 ],
 # ---------------- C12: what the engine remembers between two searches (SessionMem.v: the frame theorem
 # C12_newgame_equals_fresh).  COUNT(P, n) below is the whole-file look-ahead
 #   (?=(?:(?:(?!P).)*P){n}(?:(?!P).)*\Z)   "P occurs exactly n times in the file"
 # (signatures are matched against the source WITH comments: patterns that could also occur in a comment are
 #  anchored at the start of a line with (?m)^[ \t]*).
 "C12": [
  # (a) the exact field list of the Search struct, field by field: SessionMem.v classifies every one of them as
  #     plumbing / per-search / persistent; a new, removed, renamed or retyped field needs a new analysis
  ("search_struct_fields", "internal/search/search.go", r"type Search struct \{",
   [r"\A\{\s*" + r"\s+".join(n + r"\s+" + t for n, t in [
       ("log", r"\*logging\.Logger"), ("slog", r"\*logging\.Logger"),
       ("uciHandlerPtr", r"uciInterface\.UciDriver"), ("initSemaphore", r"\*semaphore\.Weighted"), ("isRunning", r"\*semaphore\.Weighted"),
       ("book", r"\*openingbook\.Book"), ("tt", r"\*transpositiontable\.TtTable"), ("eval", r"\*evaluator\.Evaluator"),
       ("history", r"\*history\.History"), ("lastSearchResult", r"\*Result"),
       ("stopFlag", r"\*util\.Bool"), ("startTime", r"time\.Time"), ("hasResult", r"bool"),
       ("currentPosition", r"\*position\.Position"), ("searchLimits", r"\*Limits"),
       ("timeLimit", r"time\.Duration"), ("extraTime", r"time\.Duration"), ("nodesVisited", r"uint64"),
       ("mg", r"\[\]\*movegen\.Movegen"), ("pv", r"\[\]\*moveslice\.MoveSlice"), ("rootMoves", r"\*moveslice\.MoveSlice"),
       ("hadBookMove", r"bool"), ("lastUciUpdateTime", r"time\.Time"), ("statistics", r"Statistics")]) + r"\s*\}\Z"], []),
  # SessionMem.boot: the persistent fields of a new Search
  ("new_search_initial_memory", "internal/search/search.go", r"func NewSearch\(\) \*Search",
   [r"s := &Search\{", r"book:\s*nil,\s*tt:\s*nil,\s*eval:\s*evaluator\.NewEvaluator\(\),\s*history:\s*history\.NewHistory\(\),\s*lastSearchResult:\s*nil,",
    r"hadBookMove:\s*false,", r"\}\s*return s\s*\}\Z"], []),
  ("history_is_two_zeroed_tables", "internal/history/history.go", r"type History struct \{",
   [r"\A\{\s*HistoryCount\s+\[2\]\[64\]\[64\]int64\s+CounterMoves\s+\[64\]\[64\]Move\s*\}\Z"], []),
  ("new_history_is_zero", "internal/history/history.go", r"func NewHistory\(\) \*History",
   [r"\A\{\s*return &History\{\}\s*\}\Z"], []),
  # (b) SessionMem.newgame_step: the whole body of NewGame
  ("newgame_clears_table_and_history", "internal/search/search.go", r"func \(s \*Search\) NewGame\(\)",
   [r"\A\{\s*s\.StopSearch\(\)\s*if s\.tt != nil\s*\{\s*s\.tt\.Clear\(\)\s*\}\s*s\.history = history\.NewHistory\(\)\s*\}\Z"], []),
  # (c) SessionMem.run_init: the per-search fields are overwritten, in this order, before anything reads them; the book is
  #     consulted only under time control; existing entries are aged; run() replaces none of the persistent objects
  ("run_resets_per_search_fields", "internal/search/search.go", r"func \(s \*Search\) run\(",
   [r"s\.startTime = time\.Now\(\)",
    r"s\.hasResult = false\s*s\.setTimeLimit\(0\)\s*s\.setExtraTime\(0\)\s*s\.nodesVisited = 0\s*s\.statistics = Statistics\{\}\s*s\.lastUciUpdateTime = s\.startTime\s*s\.initialize\(\)\s*s\.setupSearchLimits\(position, sl\)",
    r"bookMove := MoveNone\s*if s\.book != nil && config\.Settings\.Search\.UseBook && sl\.TimeControl\s*\{",
    r"if s\.tt != nil\s*\{[^{}]*s\.tt\.AgeEntries\(\)\s*\}\s*else\s*\{",
    r"s\.mg = make\(", r"s\.initSemaphore\.Release\(1\)",
    r"if bookMove == MoveNone\s*\{\s*searchResult = s\.iterativeDeepening\(position\)\s*\}\s*else\s*\{",
    r"s\.lastSearchResult = searchResult\s*s\.hasResult = true"],
   [r"s\.(?:tt|history|eval|book)\s*=[^=]", r"s\.hadBookMove = false", r"s\.book\.GetEntry\(.*s\.book\.GetEntry\(", r"\.Clear\(\)", r"\.Resize\(",
    r"s\.statistics = .*s\.statistics = ", r"s\.nodesVisited = .*s\.nodesVisited = "]),
  # (d) fresh generators and PV lists for every ply of every search; the generators see the history tables by pointer
  ("run_builds_fresh_generators_and_pv", "internal/search/search.go", r"func \(s \*Search\) run\(",
   [r"s\.tt\.AgeEntries\(\)",
    r"s\.mg = make\(\[\]\*movegen\.Movegen, 0, MaxDepth\+1\)\s*s\.pv = make\(\[\]\*moveslice\.MoveSlice, 0, MaxDepth\+1\)\s*"
    r"for i := 0; i <= MaxDepth; i\+\+\s*\{\s*newMoveGen := movegen\.NewMoveGen\(\)\s*"
    r"if config\.Settings\.Search\.UseHistoryCounter \|\| config\.Settings\.Search\.UseCounterMoves\s*\{\s*newMoveGen\.SetHistoryData\(s\.history\)\s*\}\s*"
    r"s\.mg = append\(s\.mg, newMoveGen\)\s*s\.pv = append\(s\.pv, moveslice\.NewMoveSlice\(MaxDepth\+1\)\)\s*\}",
    r"s\.initSemaphore\.Release\(1\)", r"s\.iterativeDeepening\(position\)"],
   [r"s\.mg = make\(.*s\.mg = make\(", r"s\.pv = make\(.*s\.pv = make\("]),
  ("root_moves_generated_before_use", "internal/search/search.go", r"func \(s \*Search\) iterativeDeepening\(",
   [r"s\.rootMoves = s\.mg\[0\]\.GenerateLegalMoves\(position, movegen\.GenAll\)", r"s\.rootMoves\.Len\(\)"],
   [r"s\.rootMoves\b(?!\s*=\s*s\.mg).*s\.rootMoves = s\.mg\[0\]"]),
  # (e) uci.go: ucinewgame = start position + NewGame; the handler owns one Search and one position; go passes both by value
  ("ucinewgame_dispatch", "internal/uci/uci.go", r"func \(u \*UciHandler\) handleReceivedCommand\(",
   [r'case "setoption":\s*u\.setOptionCommand\(tokens\)\s*case "isready":\s*u\.isReadyCommand\(\)\s*case "ucinewgame":\s*u\.uciNewGameCommand\(\)\s*case "position":\s*u\.positionCommand\(tokens\)\s*case "go":\s*u\.goCommand\(tokens\)'],
   [r"uciNewGameCommand\(\).*uciNewGameCommand\(\)"]),
  ("ucinewgame_resets_position_and_search", "internal/uci/uci.go", r"func \(u \*UciHandler\) uciNewGameCommand\(\)",
   [r"\A\{\s*u\.myPosition = position\.NewPosition\(\)\s*u\.mySearch\.NewGame\(\)\s*\}\Z"], []),
  ("handler_owns_one_search_and_position", "internal/uci/uci.go", r"func NewUciHandler\(\) \*UciHandler",
   [r"mySearch:\s*search\.NewSearch\(\),\s*myPosition:\s*position\.NewPosition\(\),"], [r"\.NewGame\(", r"StartSearch\("]),
  ("go_searches_the_handlers_position", "internal/uci/uci.go", r"func \(u \*UciHandler\) goCommand\(",
   [r"searchLimits, err := u\.readSearchLimits\(tokens\)\s*if err\s*\{\s*return\s*\}\s*u\.mySearch\.StartSearch\(\*u\.myPosition, \*searchLimits\)\s*\}\Z"], []),
  # SessionMem.initialize / resize_cache / clear_hash / setoption_step: where the table is created, dropped, cleared
  ("initialize_creates_book_and_table_once", "internal/search/search.go", r"func \(s \*Search\) initialize\(\)",
   [r"if config\.Settings\.Search\.UseBook\s*\{\s*if s\.book == nil\s*\{\s*s\.book = openingbook\.NewBook\(\)",
    r"\}\s*else\s*\{",
    r"if config\.Settings\.Search\.UseTT\s*\{\s*if s\.tt == nil\s*\{\s*sizeInMByte := config\.Settings\.Search\.TTSize\s*if sizeInMByte == 0\s*\{\s*sizeInMByte = 64\s*\}\s*s\.tt = transpositiontable\.NewTtTable\(sizeInMByte\)\s*\}\s*\}\s*else\s*\{"],
   [r"s\.tt = .*s\.tt = ", r"s\.(?:history|eval)\s*=[^=]", r"\.Clear\(\)"]),
  ("isready_initializes", "internal/search/search.go", r"func \(s \*Search\) IsReady\(\)",
   [r"\A\{\s*s\.initialize\(\)\s*if s\.uciHandlerPtr != nil\s*\{\s*s\.uciHandlerPtr\.SendReadyOk\(\)"], [r"s\.\w+\s*=[^=]"]),
  ("resize_drops_table_unless_searching", "internal/search/search.go", r"func \(s \*Search\) ResizeCache\(\)",
   [r"\A\{\s*if s\.IsSearching\(\)\s*\{[^{}]*return\s*\}\s*s\.tt = nil\s*s\.initialize\(\)"], [r"s\.(?:history|eval|book)\s*=[^=]"]),
  ("clearhash_clears_unless_searching", "internal/search/search.go", r"func \(s \*Search\) ClearHash\(\)",
   [r"\A\{\s*if s\.IsSearching\(\)\s*\{[^{}]*return\s*\}\s*if s\.tt != nil\s*\{\s*s\.tt\.Clear\(\)"], [r"s\.\w+\s*=[^=]"]),
  # Settings.Search.TTSize is written by the Hash handler only, which resizes at once
  ("hash_option_writes_size_and_resizes", "internal/uci/ucioption.go",
   r"(?s)\A(?=(?:(?:(?!Settings\.Search\.TTSize\s*=[^=]).)*Settings\.Search\.TTSize\s*=[^=]){1}(?:(?!Settings\.Search\.TTSize\s*=[^=]).)*\Z).*?func cacheSize\(u \*UciHandler, o \*uciOption\)",
   [r"\A\{\s*v, _ := strconv\.Atoi\(o\.CurrentValue\)\s*if v < 0\s*\{\s*v = 0\s*\}\s*Settings\.Search\.TTSize = v\s*u\.mySearch\.ResizeCache\(\)\s*\}\Z"], []),
  ("clear_hash_button", "internal/uci/ucioption.go", r"func clearCache\(u \*UciHandler, o \*uciOption\)",
   [r"\A\{\s*u\.mySearch\.ClearHash\(\)"], [r"Settings\."]),
  # the persistent fields are assigned only where SessionMem.v says (whole file search.go): s.tt twice (ResizeCache,
  # initialize), s.history once (NewGame), s.book three times (initialize), s.eval never, hadBookMove: one read and two
  # writes, lastSearchResult: written at the end of run(), read by its getter only
  ("memory_fields_assigned_only_where_modelled", "internal/search/search.go",
   r"(?sm)\A"
   r"(?=(?:(?:(?!^[ \t]*s\.tt = ).)*^[ \t]*s\.tt = ){2}(?:(?!^[ \t]*s\.tt = ).)*\Z)"
   r"(?=(?:(?:(?!^[ \t]*s\.history = ).)*^[ \t]*s\.history = ){1}(?:(?!^[ \t]*s\.history = ).)*\Z)"
   r"(?=(?:(?:(?!^[ \t]*s\.book = ).)*^[ \t]*s\.book = ){3}(?:(?!^[ \t]*s\.book = ).)*\Z)"
   r"(?!.*^[ \t]*s\.eval = )"
   r"(?=(?:(?:(?!s\.hadBookMove\b).)*s\.hadBookMove\b){3}(?:(?!s\.hadBookMove\b).)*\Z)"
   r"(?=(?:(?:(?!s\.lastSearchResult\b).)*s\.lastSearchResult\b){2}(?:(?!s\.lastSearchResult\b).)*\Z)"
   r".*?func \(s \*Search\) LastSearchResult\(\) Result",
   [r"\A\{\s*return \*s\.lastSearchResult\s*\}\Z"], []),
  # SessionMem.extra_granted: the only read of hadBookMove needs time control
  ("had_book_move_read_only_under_time_control", "internal/search/search.go", r"func \(s \*Search\) iterativeDeepening\(",
   [r"if s\.hadBookMove && s\.searchLimits\.TimeControl && s\.searchLimits\.MoveTime == 0\s*\{", r"s\.hadBookMove = false\s*\}", r"for iterationDepth := 0;"],
   [r"s\.hadBookMove\b.*s\.hadBookMove\b.*s\.hadBookMove\b", r"s\.book\b", r"s\.lastSearchResult\b"]),
  # SessionMem.tt_view / hashfull_view / search_fn: the tree search reaches the table only through Probe / Put / GetEntry and only
  # under Settings.Search.UseTT; it assigns none of the persistent fields and does not know book, hadBookMove, lastSearchResult
  ("tt_access_guarded", "internal/search/alphabeta.go",
   r"(?s)\A(?!.*s\.(?:book|hadBookMove|lastSearchResult)\b)(?!.*s\.(?:tt|history|eval)\s*=[^=])(?!.*s\.tt\.(?!Probe\(|Put\(|GetEntry\())"
   r"(?=(?:(?:(?!s\.tt\b).)*s\.tt\b){6}(?:(?!s\.tt\b).)*\Z)"
   r"(?=(?:(?:(?!s\.storeTT\().)*s\.storeTT\(){4}(?:(?!s\.storeTT\().)*\Z)"
   r"(?=(?:(?:(?!s\.getPVLine\().)*s\.getPVLine\(){1}(?:(?!s\.getPVLine\().)*\Z)"
   r".*?func \(s \*Search\) storeTT\(",
   [r"\A\{\s*s\.tt\.Put\(p\.ZobristKey\(\), move, int8\(depth\), valueToTT\(value, ply\), valueType, false\)\s*\}\Z"], []),
  ("search_tt_calls_under_use_tt", "internal/search/alphabeta.go", r"func \(s \*Search\) search\(",
   [r"if Settings\.Search\.UseTT\s*\{\s*ttEntry = s\.tt\.Probe\(p\.ZobristKey\(\)\)\s*if ttEntry != nil\s*\{", r"if cut && Settings\.Search\.UseTTValue\s*\{\s*s\.getPVLine\(p, s\.pv\[ply\], depth\)",
    r"\}\s*else\s*\{\s*s\.statistics\.TTMiss\+\+\s*\}\s*\}",
    r"if Settings\.Search\.UseTT\s*\{\s*s\.storeTT\(p, depth, ply, ttMove, nValue, BETA\)\s*\}",
    r"if Settings\.Search\.UseTT\s*\{\s*s\.storeTT\(p, depth, ply, bestNodeMove, bestNodeValue, ttType\)\s*\}\s*return bestNodeValue"],
   [r"s\.tt\b.*s\.tt\b", r"s\.storeTT\(.*s\.storeTT\(.*s\.storeTT\("]),
  ("qsearch_tt_calls_under_use_tt", "internal/search/alphabeta.go", r"func \(s \*Search\) qsearch\(",
   [r"if Settings\.Search\.UseTT && Settings\.Search\.UseQSTT\s*\{\s*ttEntry = s\.tt\.Probe\(p\.ZobristKey\(\)\)",
    r"if Settings\.Search\.UseTT && Settings\.Search\.UseQSTT\s*\{\s*s\.storeTT\(p, 1, ply, bestNodeMove, bestNodeValue, ttType\)\s*\}\s*return bestNodeValue"],
   [r"s\.tt\b.*s\.tt\b", r"s\.storeTT\(.*s\.storeTT\(", r"getPVLine"]),
  ("evaluate_tt_calls_under_use_tt", "internal/search/alphabeta.go", r"func \(s \*Search\) evaluate\(",
   [r"if Settings\.Search\.UseTT && Settings\.Search\.UseEvalTT\s*\{\s*ttEntry := s\.tt\.Probe\(position\.ZobristKey\(\)\)",
    r"value = s\.eval\.Evaluate\(position\)",
    r"if Settings\.Search\.UseTT && Settings\.Search\.UseEvalTT\s*\{\s*s\.storeTT\(position, 0, ply, MoveNone, value, EXACT\)\s*\}\s*return value"],
   [r"s\.tt\b.*s\.tt\b", r"s\.storeTT\(.*s\.storeTT\("]),
  ("ponder_probe_under_use_tt", "internal/search/search.go", r"func \(s \*Search\) iterativeDeepening\(",
   [r"if config\.Settings\.Search\.UseTT\s*\{\s*position\.DoMove\(result\.BestMove\)\s*ttEntry := s\.tt\.Probe\(position\.ZobristKey\(\)\)"],
   [r"s\.tt\b.*s\.tt\b"]),
  ("hashfull_read_when_table_exists", "internal/search/search.go", r"func \(s \*Search\) sendSearchUpdateToUci\(\)",
   [r"hashfull := 0\s*if s\.tt != nil\s*\{\s*hashfull = s\.tt\.Hashfull\(\)\s*\}"], [r"s\.tt\.(?!Hashfull\(\))"]),
 ],
 # ---------------- C20: cache locking
 "C20": [
  ("load_unlocks_before_error_return", "internal/openingbook/openingbook.go", r"func \(b \*Book\) loadFromCache\(",
   [r"os\.Open\(cachePath\)", r"if err != nil\s*\{\s*return false, err", r"bookLock\.Lock\(\)\s*err = decoder\.Decode\(&b\.bookMap\)\s*bookLock\.Unlock\(\)\s*if err != nil\s*\{\s*return false, err"], []),
  ("initialize_rebuilds_when_cache_unusable", "internal/openingbook/openingbook.go", r"func \(b \*Book\) initialize\(",
   [r"if useCache && !recreateCache", r"hasCache, err := b\.loadFromCache", r"if hasCache\s*\{", r"return nil", r"b\.readFile\(bookFilePath\)", r"b\.bookMap = make\(map\[uint64\]BookEntry\)", r"b\.process\(lines, bookFormat\)", r"if useCache\s*\{", r"b\.saveToCache"], []),
  ("save_locks_balanced", "internal/openingbook/openingbook.go", r"func \(b \*Book\) saveToCache\(",
   [r"bookLock\.Lock\(\)", r"enc\.Encode\(b\.bookMap\)", r"bookLock\.Unlock\(\)"], []),
 ],
 # ---------------- C19: book updates under the mutex
 "C19": [
  ("add_to_book_under_lock", "internal/openingbook/openingbook.go", r"func \(b \*Book\) addToBook\(",
   [r"bookLock\.Lock\(\)\s*defer bookLock\.Unlock\(\)", r"currentPosEntry, found := b\.bookMap\[curPosKey\]", r"nextPosEntry, found := b\.bookMap\[nextPosKey\]", r"if found\s*\{[^}]*nextPosEntry\.Counter\+\+", r"Counter:\s*1", r"currentPosEntry\.Moves = append\(currentPosEntry\.Moves, Successor\{move, nextPosEntry\.ZobristKey\}\)"], []),
  ("root_counter_under_lock", "internal/openingbook/openingbook.go", r"func \(b \*Book\) processSanLine\(",
   [r"bookLock\.Lock\(\)\s*e, found := b\.bookMap\[b\.rootEntry\]", r"e\.Counter\+\+", r"bookLock\.Unlock\(\)", r"for _, moveString := range moveStrings\s*\{\s*err := b\.processSingleMove", r"break"], []),
  ("single_move_resolved_by_legal_move_lookup", "internal/openingbook/openingbook.go", r"func \(b \*Book\) processSingleMove\(",
   [r"GetMoveFromUci\(posPtr, s\)", r"GetMoveFromSan\(posPtr, s\)", r"if !move\.IsValid\(\)\s*\{\s*return errors\.New", r"curPosKey := uint64\(posPtr\.ZobristKey\(\)\)\s*posPtr\.DoMove\(move\)\s*nextPosKey := uint64\(posPtr\.ZobristKey\(\)\)\s*b\.addToBook\(curPosKey, nextPosKey, uint32\(move\)\)"], []),
 ],
 # ---------------- C13: search limits (statements that TimeCtl.v transcribes and that no hook can feed from outside).
 # A signature that starts with (?s)\A(?=...) also constrains the whole file: the number of occurrences of a
 # statement in the file is part of the site (the body patterns only see one function).
 "C13": [
  # extra time after a book move: TimeCtl.deadline / add_extra_time / extra_clock
  ("extra_time_reset_before_limits_are_set", "internal/search/search.go", r"func \(s \*Search\) run\(",
   [r"s\.setTimeLimit\(0\)\s*s\.setExtraTime\(0\)", r"s\.setupSearchLimits\(position, sl\)", r"s\.startTimer\(\)",
    r"if bookMove == MoveNone\s*\{\s*searchResult = s\.iterativeDeepening\(position\)\s*\}\s*else\s*\{\s*searchResult = &Result\{BestMove: bookMove, BookMove: true\}\s*s\.hadBookMove = true\s*\}"],
   [r"addExtraTime\(", r"s\.hadBookMove = true.*s\.hadBookMove = true"]),
  ("limits_set_budget_and_zero_extra_time", "internal/search/search.go", r"func \(s \*Search\) setupSearchLimits\(",
   [r"if sl\.TimeControl\s*\{\s*s\.setTimeLimit\(s\.setupTimeControl\(position, sl\)\)\s*s\.setExtraTime\(0\)"],
   [r"addExtraTime\(", r"setTimeLimit\(.*setTimeLimit\(", r"setExtraTime\(.*setExtraTime\("]),
  # exactly one call of addExtraTime in search.go (whole-file count in the signature), none in alphabeta.go
  ("extra_time_only_after_book_move", "internal/search/search.go",
   r"(?s)\A(?=(?:(?!s\.addExtraTime\().)*s\.addExtraTime\((?:(?!s\.addExtraTime\().)*\Z).*?func \(s \*Search\) iterativeDeepening\(",
   [r"if s\.rootMoves\.Len\(\) == 0\s*\{",
    r"if s\.hadBookMove && s\.searchLimits\.TimeControl && s\.searchLimits\.MoveTime == 0\s*\{\s*(?:s\.log\.Debugf\([^{};]*\)\s*)?s\.addExtraTime\(2\.0\)\s*s\.hadBookMove = false\s*\}",
    r"for iterationDepth := 0;"],
   [r"addExtraTime\(.*addExtraTime\(", r"s\.hadBookMove = true", r"setExtraTime\(", r"setTimeLimit\("]),
  ("no_extra_time_inside_the_tree", "internal/search/alphabeta.go",
   r"(?s)\A(?!.*(?:addExtraTime|setExtraTime|setTimeLimit)\().*?func \(s \*Search\) rootSearch\(",
   [r"for i, m := range \*s\.rootMoves"], []),
  ("extra_time_capped_by_movers_clock", "internal/search/search.go", r"func \(s \*Search\) addExtraTime\(f float64\)",
   [r"if s\.searchLimits\.TimeControl && s\.searchLimits\.MoveTime == 0\s*\{",
    r"duration := time\.Duration\(int64\(\(f - 1\.0\) \* float64\(s\.timeLimit\.Nanoseconds\(\)\)\)\)",
    r"clock := s\.searchLimits\.WhiteTime\s*if s\.currentPosition\.NextPlayer\(\) == Black\s*\{\s*clock = s\.searchLimits\.BlackTime\s*\}",
    r"if s\.timeLimit\+s\.extraTime\+duration > clock\s*\{\s*duration = clock - s\.timeLimit - s\.extraTime\s*\}",
    r"s\.setExtraTime\(s\.extraTime \+ duration\)"],
   [r"setTimeLimit\(", r"setExtraTime\(.*setExtraTime\("]),
  # depth loop: TimeCtl.max_depth / id_loop / iterations
  ("depth_loop", "internal/search/search.go", r"func \(s \*Search\) iterativeDeepening\(",
   [r"if s\.rootMoves\.Len\(\) == 0\s*\{",
    r"maxDepth := MaxDepth\s*if s\.searchLimits\.Depth > 0\s*\{\s*maxDepth = s\.searchLimits\.Depth\s*\}",
    r"for iterationDepth := 0; iterationDepth < maxDepth;\s*\{\s*iterationDepth\+\+",
    r"s\.rootSearch\(position, iterationDepth, alpha, beta\)",
    r"if !s\.stopConditions\(\) && s\.rootMoves\.Len\(\) > 1\s*\{",
    r"\}\s*else\s*\{\s*break\s*\}\s*\}",
    r"SearchDepth:\s*s\.statistics\.CurrentIterationDepth,"],
   [r"\bbreak\b.*\bbreak\b", r"\bgoto\b", r"iterationDepth\+\+.*iterationDepth\+\+", r"iterationDepth\s*(?:=[^=]|\+=|-=|--)", r"maxDepth\s*(?:\+\+|\+=|-=|--)",
    r"maxDepth = .*maxDepth = "]),
  # searchmoves: TimeCtl.listed / filter_root
  ("searchmoves_filter", "internal/search/search.go", r"func \(s \*Search\) iterativeDeepening\(",
   [r"if s\.rootMoves\.Len\(\) == 0\s*\{",
    r"if s\.searchLimits\.Moves\.Len\(\) > 0\s*\{",
    r"listed := func\(m Move\) bool\s*\{\s*for _, lm := range s\.searchLimits\.Moves\s*\{\s*if lm\.MoveOf\(\) == m\.MoveOf\(\)\s*\{\s*return true\s*\}\s*\}\s*return false\s*\}",
    r"anyListed := false\s*for _, m := range \*s\.rootMoves\s*\{\s*anyListed = anyListed \|\| listed\(m\)\s*\}",
    r"if anyListed\s*\{\s*s\.rootMoves\.Filter\(func\(i int\) bool\s*\{\s*return listed\(s\.rootMoves\.At\(i\)\)\s*\}\)\s*\}\s*\}",
    r"for iterationDepth := 0;"],
   [r"rootMoves\.Filter\(.*rootMoves\.Filter\(", r"s\.rootMoves = .*s\.rootMoves = "]),
  ("searchmoves_filter_keeps_accepted_in_order", "internal/moveslice/moveslice.go", r"func \(ms \*MoveSlice\) Filter\(f func\(index int\) bool\)",
   [r"b := \(\*ms\)\[:0\]\s*for i, x := range \*ms\s*\{\s*if f\(i\)\s*\{\s*b = append\(b, x\)\s*\}\s*\}\s*\*ms = b"], []),
  # node counter: TimeCtl.rrun / srun / qrun ("incremented at exactly five places", a stop check after every child)
  ("node_counter_once_per_iteration", "internal/search/search.go",
   r"(?s)\A(?=(?:(?!nodesVisited\s*(?:\+\+|\+=)).)*nodesVisited\+\+(?:(?!nodesVisited\s*(?:\+\+|\+=)).)*\Z).*?func \(s \*Search\) iterativeDeepening\(",
   [r"for iterationDepth := 0; iterationDepth < maxDepth;\s*\{\s*iterationDepth\+\+\s*s\.nodesVisited\+\+", r"s\.rootSearch\("], []),
  ("node_counter_four_places_in_the_tree", "internal/search/alphabeta.go",
   r"(?s)\A(?=(?:(?:(?!nodesVisited\s*(?:\+\+|\+=)).)*nodesVisited\+\+){4}(?:(?!nodesVisited\s*(?:\+\+|\+=)).)*\Z).*?func \(s \*Search\) rootSearch\(",
   [r"for i, m := range \*s\.rootMoves\s*\{\s*p\.DoMove\(m\)\s*s\.nodesVisited\+\+", r"p\.UndoMove\(\)\s*if s\.stopConditions\(\) && depth > 1\s*\{\s*return"],
   [r"nodesVisited\+\+.*nodesVisited\+\+"]),
  ("node_counter_search_null_move_and_move", "internal/search/alphabeta.go", r"func \(s \*Search\) search\(",
   [r"s\.pv\[ply\]\.Clear\(\)\s*if s\.stopConditions\(\)\s*\{\s*return ValueNA\s*\}",
    r"p\.DoNullMove\(\)\s*s\.nodesVisited\+\+\s*nValue := -s\.search\(p, newDepth, ply\+1, -beta, -beta\+1, false, false\)\s*p\.UndoNullMove\(\)\s*if s\.stopConditions\(\)\s*\{\s*return ValueNA",
    r"s\.search\(p, newDepth, ply, alpha, beta, isPV, true\)\s*s\.statistics\.IIDsearches\+\+\s*if s\.stopConditions\(\)\s*\{\s*return ValueNA",
    r"p\.DoMove\(move\)\s*if !p\.WasLegalMove\(\)\s*\{\s*p\.UndoMove\(\)\s*continue\s*\}\s*s\.nodesVisited\+\+",
    r"if value > alpha && !s\.stopConditions\(\)\s*\{",
    r"p\.UndoMove\(\)\s*if s\.stopConditions\(\)\s*\{\s*return ValueNA"],
   [r"nodesVisited\+\+.*nodesVisited\+\+.*nodesVisited\+\+"]),
  ("node_counter_qsearch_move", "internal/search/alphabeta.go", r"func \(s \*Search\) qsearch\(",
   [r"p\.DoMove\(move\)\s*if !p\.WasLegalMove\(\)\s*\{\s*p\.UndoMove\(\)\s*continue\s*\}\s*s\.nodesVisited\+\+",
    r"value = -s\.qsearch\(p, ply\+1, -beta, -alpha, isPV\)",
    r"p\.UndoMove\(\)\s*if s\.stopConditions\(\)\s*\{\s*return ValueNA"],
   [r"nodesVisited\+\+.*nodesVisited\+\+"]),
  # timer: TimeCtl.timer_fire / poll_period (the C14 list has the same loop for the token discipline)
  ("timer_poll_5ms", "internal/search/search.go", r"func \(s \*Search\) startTimer\(",
   [r"timerStart := time\.Now\(\)",
    r"for time\.Since\(timerStart\) < s\.loadTimeLimit\(\)\+s\.loadExtraTime\(\) && !stop\.Load\(\)\s*\{\s*time\.Sleep\(5 \* time\.Millisecond\)\s*\}",
    r"\}\s*else\s*\{[^{}]*stop\.Store\(true\)\s*\}"],
   [r"time\.Sleep\(.*time\.Sleep\(", r"timerStart = "]),
 ],
}


def main():
    lines = ["(* GENERATED by tools/sites.py from /repo's current source: which of the statement patterns that the",
             "   control-flow models transcribe are still recognisable (in order) in the named Go functions. *)",
             "From Coq Require Import List Bool.", "Import ListNotations.", ""]
    report = {}
    for pid, sites in SITES.items():
        names = []
        for name, path, sig, must, must_not in sites:
            ok = False
            try:
                src = open(os.path.join(REPO, path)).read()
                # guarded verification hooks vanish without the build tag: the patterns describe the code without them
                src = re.sub(r"[ \t]*if verifEnabled && [^{]*\{[^{}]*\}\n", "", src)
                body = func_body(src, sig)
                if body is not None:
                    body = strip_comments(body)
                    pos, ok = 0, True
                    for rx in must:
                        m = re.compile(rx, re.S).search(body, pos)
                        if not m:
                            ok = False
                            break
                        pos = m.end()
                    for rx in must_not:
                        if re.search(rx, body, re.S):
                            ok = False
            except Exception as e:  # unreadable file = not recognised
                ok = False
            cname = "site_%s_%s" % (pid, name)
            names.append(cname)
            report[cname] = ok
            lines.append("Definition %s : bool := %s.  (* %s : %s *)" % (cname, "true" if ok else "false", path, sig.replace("\\", "")))
        lines.append("Definition sites_%s : list bool := [%s]." % (pid, "; ".join(names)))
        lines.append("")
    tmp = OUT + ".tmp"
    open(tmp, "w").write("\n".join(lines) + "\n")
    if os.path.exists(OUT) and open(OUT).read() == open(tmp).read():
        os.remove(tmp)
    else:
        os.replace(tmp, OUT)
    bad = [k for k, v in report.items() if not v]
    print("sites recognised: %d/%d" % (len(report) - len(bad), len(report)))
    for b in bad:
        print("NOT RECOGNISED:", b)
    return 0


sys.exit(main())
