#!/bin/sh
# seed_round.sh <round> : verifies (first shot) every seed of the round as soon as its agent has filled
# /tmp/seed<round>_Cxx/seed_out/meta.json; ends when all 20 are done or after 3 hours.
R=$1
end=$(( $(date +%s) + 10800 ))
while [ $(date +%s) -lt $end ]; do
  left=0
  for i in 01 02 03 04 05 06 07 08 09 10 11 12 13 14 15 16 17 18 19 20; do
    id=C$i-$R
    if [ -f /verif/seeded/$id/meta.json ] && grep -q '"checks"' /verif/seeded/$id/meta.json; then continue; fi
    left=$((left+1))
    if [ -f /tmp/seed${R}_C$i/seed_out/meta.json ] && [ -f /tmp/seed${R}_C$i/seed_out/patch.diff ]; then
      # give the agent a moment to finish writing
      sleep 20
      flock /tmp/repo_patch.lock python3 /verif/tools/seed_verify.py "$id" /tmp/seed${R}_C$i > /tmp/seedverify_$id.out 2>&1
    fi
  done
  [ $left -eq 0 ] && break
  sleep 30
done
echo ROUND-DONE
