#!/usr/bin/env python3
"""mkseedprompts.py <round> : creates scratch worktrees /tmp/seed<round>_Cxx of /repo HEAD and the prompt files
/tmp/seed<round>prompt_Cxx.txt for the seeded-regression agents.  A prompt holds the text of ONE property
(title, statement, quantifier, files) and one-sentence summaries of the regressions earlier engineers produced
for it (so that the new one differs) - nothing about /verif's checks."""
import json, os, subprocess, sys, glob
R = sys.argv[1]
words = {1: "One other engineer has", 2: "Two other engineers have", 3: "Three other engineers have", 4: "Four other engineers have",
         5: "Five other engineers have", 6: "Six other engineers have", 7: "Seven other engineers have"}
props = [json.loads(l) for l in open("/verif/properties.jsonl")]
tmpl = open("/verif/tools/seed_prompt_template.txt").read()
for p in props:
    pid = p["id"]
    wt = "/tmp/seed%s_%s" % (R, pid)
    subprocess.run(["git", "-C", "/repo", "worktree", "remove", "--force", wt], capture_output=True)
    subprocess.run(["git", "-C", "/repo", "worktree", "add", "-q", "--detach", wt, "HEAD"], check=True)
    prev = []
    for d in sorted(glob.glob("/verif/seeded/%s-*/meta.json" % pid)):
        m = json.load(open(d))
        if m.get("summary"):
            prev.append(m["summary"].strip())
    others = ""
    if prev:
        others = "%s already produced these regressions for the same property:\n" % words.get(len(prev), "%d other engineers have" % len(prev))
        others += "\n".join(' (%d) "%s"' % (i + 1, s) for i, s in enumerate(prev))
        others += "\nYours must be DIFFERENT from all of them: a different function or mechanism AND a different circumstance in which it shows. Read the property statement clause by clause and pick a clause, an input class or a code path none of them touches; consider less obvious code the property depends on (helpers, constants, initialisation, configuration handling, other packages, data structures shared between features) and interactions between two features or two calls.\n"
    text = (tmpl.replace("{{WT}}", wt).replace("{{PID}}", pid).replace("{{TITLE}}", p["title"]).replace("{{STATEMENT}}", p["statement"])
            .replace("{{QUANT}}", p["quantifier"]["text"]).replace("{{FILES}}", ", ".join(p["anchors"]["files"])).replace("{{OTHERS}}", others))
    open("/tmp/seed%sprompt_%s.txt" % (R, pid), "w").write(text)
print("prompts and worktrees for round", R)
