#!/bin/sh
# Runs the repository's baseline test suite (guard OFF) on a scratch worktree of /repo HEAD
# and compares with BASELINE.json's stable_pass list.  usage: run_suite.sh <tag>
TAG=${1:-suite}
WT=/tmp/wt_$TAG
export GOFLAGS=-mod=mod GOPROXY=off GOSUMDB=off GOTOOLCHAIN=local
git -C /repo worktree remove --force $WT 2>/dev/null
git -C /repo worktree add -q $WT HEAD || exit 2
cd $WT && go test -json -vet=off -count=1 -timeout 25m ./... > /tmp/suite_$TAG.json 2>/tmp/suite_$TAG.err
python3 - "$TAG" <<'PY'
import json,sys
tag=sys.argv[1]
base=json.load(open('/root/.vp/BASELINE.json'))
stable=set(base['stable_pass'])
res={}
for l in open('/tmp/suite_%s.json'%tag):
    try: e=json.loads(l)
    except: continue
    if e.get('Test') and e.get('Action') in('pass','fail','skip') and '/' not in e['Test']:
        res[e['Package']+'::'+e['Test']]=e['Action']
bad=[t for t in stable if res.get(t)!='pass']
print('HEAD', open('/tmp/wt_%s/.git'%tag).read().strip() if False else '')
print('stable tests:',len(stable),'passing now:',len(stable)-len(bad))
for t in sorted(bad): print('NOT PASSING:',t,res.get(t))
PY
git -C /repo rev-parse --short HEAD
git -C /repo worktree remove --force $WT
