#!/bin/sh
# usage: run_pkg_tests.sh <tag> <pkg...>  - runs package tests on a scratch worktree of /repo HEAD, compares with baseline stable list
TAG=$1; shift
WT=/tmp/wtp_$TAG
export GOFLAGS=-mod=mod GOPROXY=off GOSUMDB=off GOTOOLCHAIN=local
git -C /repo worktree remove --force $WT 2>/dev/null
git -C /repo worktree add -q $WT HEAD || exit 2
cd $WT && go test -json -vet=off -count=1 -timeout 25m "$@" > /tmp/pkg_$TAG.json 2>/tmp/pkg_$TAG.err
python3 - "$TAG" <<'PY'
import json,sys
tag=sys.argv[1]
base=json.load(open('/root/.vp/BASELINE.json'))
stable=set(base['stable_pass'])
res={}
for l in open('/tmp/pkg_%s.json'%tag):
    try: e=json.loads(l)
    except: continue
    if e.get('Test') and e.get('Action') in('pass','fail','skip'):
        res[e['Package']+'::'+e['Test']]=e['Action']
pk=set(k.split('::')[0] for k in res)
rel=[t for t in stable if t.split('::')[0] in pk]
bad=[t for t in rel if res.get(t)!='pass']
print('packages:',sorted(pk)); print('stable tests in these packages:',len(rel),'passing:',len(rel)-len(bad))
for t in sorted(bad): print('NOT PASSING:',t,res.get(t))
PY
git -C /repo rev-parse --short HEAD
git -C /repo worktree remove --force $WT
