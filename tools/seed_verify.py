#!/usr/bin/env python3
"""seed_verify.py <seed_id> <src_dir_with_seed_out> : keeps a seeded regression under /verif/seeded/<seed_id>/
after confirming in a scratch worktree of /repo HEAD that (1) the patch applies and builds (with and without
-tags verif), (2) the demonstration fails with the patch and passes without it, (3) the tests of the touched
packages still pass with the patch (names from BASELINE stable list).  Then runs the /verif checks of the
property against /repo with the patch applied (and reverts), recording which checks raise a VIOLATION."""
import json, os, re, shutil, subprocess, sys, time

sid, src = sys.argv[1], sys.argv[2]
quick_only = "--quick" in sys.argv
ENV = dict(os.environ, GOFLAGS="-mod=mod", GOPROXY="off", GOSUMDB="off", GOTOOLCHAIN="local")
out = os.path.join(src, "seed_out")
dst = os.path.join("/verif/seeded", sid)
os.makedirs(dst, exist_ok=True)
if os.path.isdir(out):
    meta = json.load(open(os.path.join(out, "meta.json")))
    for f in os.listdir(out):
        if os.path.isfile(os.path.join(out, f)):
            shutil.copy(os.path.join(out, f), os.path.join(dst, f))
        elif os.path.isdir(os.path.join(out, f)):  # a demonstration program in its own directory
            shutil.copytree(os.path.join(out, f), os.path.join(dst, f), dirs_exist_ok=True)
else:  # re-verification of a kept seed
    meta = json.load(open(os.path.join(dst, "meta.json")))
    _hist = meta.get("history", [])
    if meta.get("checks"):
        _hist = _hist + [dict(verified_at=meta.get("verified_at"), checks=meta["checks"], caught=meta.get("caught"), caught_with_failing_input=meta.get("caught_with_failing_input"))]
    _first = meta.get("first_shot") or (_hist[0] if _hist else None)
    meta = {k: meta[k] for k in ("property", "summary", "needs", "demo", "tests_run") if k in meta}
    if _first:
        meta["first_shot"] = _first
    if _hist:
        meta["history"] = _hist
    out = dst
pid = meta["property"]
patch = os.path.join(dst, "patch.diff")


def sh(cmd, cwd=None, timeout=1800):
    p = subprocess.run(cmd, shell=True, cwd=cwd, env=ENV, capture_output=True, text=True, timeout=timeout)
    return p.returncode, (p.stdout + p.stderr)


wt = "/tmp/seedwt_" + sid
sh("git -C /repo worktree remove --force %s" % wt)
rc, o = sh("git -C /repo worktree add -q %s HEAD" % wt)
record = dict(meta, seed_id=sid, verified_at=time.strftime("%Y-%m-%d %H:%M:%S"), repo_head=sh("git -C /repo rev-parse --short HEAD")[1].strip())
try:
    rc, o = sh("git apply --check %s" % patch, cwd=wt)
    if rc != 0:
        rc, o = sh("git apply --3way %s" % patch, cwd=wt)
        record["applies"] = "3way" if rc == 0 else "NO: " + o[-300:]
        if rc == 0:
            sh("git reset -q", cwd=wt)
    else:
        sh("git apply %s" % patch, cwd=wt)
        record["applies"] = "clean"
    if not record["applies"].startswith("NO"):
        # re-export the patch relative to the current HEAD
        rc, o = sh("git diff", cwd=wt)
        open(patch, "w").write(o)
        rc1, o1 = sh("go build ./... && go build -tags verif ./...", cwd=wt)
        record["builds"] = rc1 == 0
        demo = re.split(r"\s{2,}\(|\s+#\s", meta["demo"])[0].strip()
        record["demo_cmd_used"] = demo
        for f in os.listdir(out):
            shutil.copy(os.path.join(out, f), os.path.join(wt, "seed_out_" + f)) if False else None
        shutil.copytree(out, os.path.join(wt, "seed_out"), dirs_exist_ok=True)
        rcd, od = sh("bash -c %r" % demo, cwd=wt, timeout=600)
        record["demo_fails_with_patch"] = "FAIL" in od or (rcd != 0 and "Syntax error" not in od)
        sh("git stash -q", cwd=wt)
        shutil.copytree(out, os.path.join(wt, "seed_out"), dirs_exist_ok=True)
        rcu, ou = sh("bash -c %r" % demo, cwd=wt, timeout=600)
        record["demo_passes_without_patch"] = "FAIL" not in ou and "Syntax error" not in ou and (rcu == 0 or "ok " in ou or "PASS" in ou)
        open(os.path.join(dst, "verify_log.txt"), "w").write("== demo with patch (rc %s)\n%s\n== demo without patch (rc %s)\n%s\n" % (rcd, od[-3000:], rcu, ou[-3000:]))
        sh("git stash pop -q", cwd=wt)
        # package tests of touched packages
        pkgs = sorted(set(re.findall(r"^\+\+\+ b/(internal/[^/]+)/", open(patch).read(), re.M)))
        base = json.load(open("/root/.vp/BASELINE.json"))
        stable = set(base["stable_pass"])
        bad = []
        for pk in pkgs:
            rc, o = sh("go test -json -vet=off -count=1 -timeout 20m ./%s/" % pk, cwd=wt, timeout=1500)
            res = {}
            for l in o.splitlines():
                try:
                    e = json.loads(l)
                except Exception:
                    continue
                if e.get("Test") and e.get("Action") in ("pass", "fail"):
                    res[e["Package"] + "::" + e["Test"]] = e["Action"]
            bad += [t for t in stable if ("/%s::" % pk) in t and res.get(t) != "pass"]
        record["touched_packages"] = pkgs
        record["stable_tests_not_passing_with_patch"] = bad
finally:
    sh("git -C /repo worktree remove --force %s" % wt)

ok = record.get("builds") and record.get("demo_fails_with_patch") and record.get("demo_passes_without_patch") and not record.get("stable_tests_not_passing_with_patch")
record["confirmed"] = bool(ok)
if ok:
    # run our checks against a scratch worktree of /repo with the patch applied, from a private copy
    # of /verif (so neither /repo nor /verif's build products are disturbed)
    wt2 = "/tmp/seedrun_" + sid
    vcopy = "/tmp/vseed_" + sid
    sh("git -C /repo worktree remove --force %s" % wt2)
    sh("git -C /repo worktree add -q %s HEAD && git -C %s apply %s" % (wt2, wt2, patch))
    sh("rm -rf %s && mkdir -p %s && rsync -a --exclude .git --exclude replays /verif/ %s/" % (vcopy, vcopy, vcopy))
    sh("sed -i 's#=> /repo#=> %s#' %s/harness/go.mod" % (wt2, vcopy))
    try:
        res = {}
        for tier in (["quick"] if quick_only else ["quick", "thorough"]):
            t0 = time.time()
            rc, o = sh("cd %s && VERIF_NO_COQCHK=1 VERIF_REPO=%s VERIF_DIR=%s bin/verif check %s --tier %s" % (vcopy, wt2, vcopy, pid, tier), timeout=3600)
            viol = [l for l in o.splitlines() if l.startswith("VIOLATION")]
            res[tier] = dict(exit=rc, violations=[v.replace(vcopy, "/verif") for v in viol[:5]], wall_s=round(time.time() - t0, 1))
            if viol:
                m = re.search(r"replay=(\S+)", viol[0])
                if m and os.path.exists(m.group(1)):
                    shutil.copy(m.group(1), os.path.join(dst, "replay_example.json"))
                break
        record["checks"] = res
        record["caught"] = any(v["violations"] for v in res.values())
        record["caught_with_failing_input"] = any(v["violations"] and not all("no-failing-input-found" in x for x in v["violations"]) for v in res.values())
    finally:
        sh("git -C /repo worktree remove --force %s" % wt2)
        sh("rm -rf %s" % vcopy)
if "first_shot" not in record and record.get("checks"):
    record["first_shot"] = dict(verified_at=record.get("verified_at"), checks=record["checks"], caught=record.get("caught"), caught_with_failing_input=record.get("caught_with_failing_input"))
json.dump(record, open(os.path.join(dst, "meta.json"), "w"), indent=1)
print(json.dumps({k: record.get(k) for k in ("seed_id", "property", "applies", "builds", "demo_fails_with_patch", "demo_passes_without_patch", "stable_tests_not_passing_with_patch", "confirmed", "caught", "checks")}, indent=1))
