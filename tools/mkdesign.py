#!/usr/bin/env python3
"""Assembles /verif/DESIGN.md from design/*.md, the seeded-regression table (seeded/*/meta.json) and the
axioms table (evidence/*.json)."""
import glob, json, os, re, subprocess
V = "/verif"
def rd(n): return open(os.path.join(V, "design", n)).read().rstrip("\n") + "\n"

def _res(ck):
    def one(t):
        c = (ck or {}).get(t)
        if not c: return None
        v = c.get("violations") or []
        if not v: return "miss"
        return "no input" if all("no-failing-input-found" in x for x in v) else "input"
    q, t = one("quick"), one("thorough")
    if q in ("input", "no input"): return "quick: " + ("failing input" if q == "input" else "obligation/correspondence only")
    if t in ("input", "no input"): return "thorough only: " + ("failing input" if t == "input" else "obligation/correspondence only")
    if q is None: return "?"
    return "MISSED"

def seeds_table():
    rows = []
    import collections
    first = collections.Counter(); final = collections.Counter(); per_round = {}
    for d in sorted(glob.glob(V + "/seeded/*/")):
        sid = os.path.basename(d.rstrip("/"))
        try: m = json.load(open(d + "meta.json"))
        except Exception: continue
        fs = _res((m.get("first_shot") or {}).get("checks")); fin = _res(m.get("checks"))
        first[fs] += 1; final[fin] += 1
        rnd = sid.split("-")[1]
        key = "quick, failing input" if fs.startswith("quick: failing") else ("quick, no input" if fs.startswith("quick") else ("thorough only" if fs.startswith("thorough") else "missed"))
        per_round.setdefault(rnd, collections.Counter())[key] += 1
        summ = re.sub(r"\s+", " ", m.get("summary", ""))[:200]
        rows.append("| %s | %s | %s | %s | %s |" % (sid, summ.replace("|", "/"), "yes" if m.get("confirmed") else ("NO" if m.get("confirmed") is False else "?"), fs, fin))
    tot = lambda c: ", ".join("%s: %d" % kv for kv in sorted(c.items()))
    pr = "\n\nFirst shot per round (20 seeds each): " + "; ".join("round %s: %s" % (r, ", ".join("%s %d" % (k, c[k]) for k in ("quick, failing input", "quick, no input", "thorough only", "missed"))) for r, c in sorted(per_round.items())) + "."
    return "\n".join(rows) + pr + "\n\nTotals - first shot (the machinery as it was when the seed arrived): " + tot(first) + ".  Final (after the strengthening the miss prompted): " + tot(final) + ".\n"

def axioms_table():
    rows = []
    for f in sorted(glob.glob(V + "/evidence/C*.json")):
        e = json.load(open(f)); pid = os.path.basename(f)[:-5]
        pa = (e.get("coverage") or {}).get("print_assumptions") or {}
        closed = [k for k, v in pa.items() if "Closed under the global context" in v]
        other = {k: v for k, v in pa.items() if k not in closed}
        names = set()
        for v in other.values():
            for m in re.findall(r"^([A-Za-z_][\w.']*)[ \t]*(?::|$)", v, re.M):
                if m != "Axioms": names.add(m)
        fam = set()
        for n in names:
            if n.startswith("PrimInt63.") or n.startswith("PrimFloat.") or n in ("int", "float", "sub", "add", "mul", "of_uint63", "normfr_mantissa", "shift_exponent", "frshiftexp", "lsl", "lsr", "land", "lor", "eqb", "ltb", "leb", "compare", "opp", "abs", "div", "sqrt", "classify", "of_int63", "ldshiftexp", "next_up", "next_down", "to_Z", "of_Z"): fam.add("native Uint63 / binary64 primitives")
            elif n.endswith("_spec") or n.startswith("FloatAxioms") or n.startswith("Uint63."): fam.add("specification of the primitives (Uint63 *_spec, FloatAxioms.*)")
            else: fam.add(n)
        rows.append("| %s | %d | %d | %s |" % (pid, len(pa), len(closed), "; ".join(sorted(fam)) or "-"))
    return "\n".join(rows)

coq = glob.glob(V + "/coq/theories/*.v") + glob.glob(V + "/coq/properties/*.v")
lines = sum(len(open(f).read().splitlines()) for f in coq)
sites = subprocess.run(["python3", V + "/tools/sites.py"], capture_output=True, text=True).stdout
nsites = (re.findall(r"sites recognised: \d+/(\d+)", sites) or ["?"])[0]
defects = len(re.findall(r"^\| \d+ \|", rd("08_defects.md"), re.M))
nseeds = len(glob.glob(V + "/seeded/*/meta.json"))
corpus = len([l for l in open(V + "/corpus/fens.txt") if l.strip() and not l.startswith("#")])
parts = [rd("00_status.md"), rd("01_why.md"), rd("02_architecture.md"), rd("03_tie.md"), rd("04_breaks.md"), rd("05_inputs.md"),
         "## 6. Per-property design, as built\n\n" + rd("06a_properties.md").split("\n", 1)[1], rd("06c_c08.md") if os.path.exists(V + "/design/06c_c08.md") else "", rd("06b_c12_c14.md"),
         "### 6.1 Seeded regressions and what caught them\n\nEach row is a change written by a sub-agent that was given only the property text and a scratch worktree; `confirmed` = the patch builds, its demonstration fails with it and passes without it, and the stable tests of the touched packages still pass (`tools/seed_verify.py`).  Both result columns are from runs of the property's own check against a worktree with the patch applied (`failing input` = a VIOLATION line with a concrete replay; `obligation/correspondence only` = caught, but the monitors found no input: `no-failing-input-found`; thorough is only run when quick misses).  `first shot` is the machinery as it was when the seed arrived; where it missed, or caught without an input, the monitor or generator was strengthened in a general way (commit messages name the seed) and the seed re-verified: `final`.  Seeds arrived in rounds (-1, -2, -3, ...), each round written against the property text only and told to differ from the earlier ones; the first-shot column of a later round therefore measures how the strengthening generalises.\n\n| seed | change | confirmed | first shot | final |\n|---|---|---|---|---|\n" + seeds_table() + "\n",
         rd("07_hooks.md"), rd("08_defects.md"), rd("09_borderline.md"), rd("10_trusted.md") + "\n| property | theorems with Print Assumptions | closed | other assumptions reported |\n|---|---|---|---|\n" + axioms_table() + "\n", rd("11_cost.md"), rd("12_hypotheses_audit.md"), rd("13_audit_followup.md"), rd("14_false_alarms.md")]
txt = "\n\n".join(p for p in parts if p)
for k, v in {"{{COQ_FILES}}": str(len(coq)), "{{COQ_LINES}}": "{:,}".format(lines), "{{SITES}}": nsites, "{{DEFECTS}}": str(defects), "{{SEEDS}}": str(nseeds), "{{CORPUS}}": str(corpus)}.items():
    txt = txt.replace(k, v)
open(V + "/DESIGN.md", "w").write(txt)
print("DESIGN.md", len(txt.splitlines()), "lines")
