#!/bin/sh
# seed_try.sh <seed_id> <cmd...> : runs <cmd> (relative to a private copy of /verif) with VERIF_REPO pointing to a
# scratch worktree of /repo HEAD with seeded/<seed_id>/patch.diff applied; removes both afterwards.
# e.g. tools/seed_try.sh C05-1 bin/verif check C05 --tier quick
sid=$1; shift
wt=/tmp/trywt_$sid; vc=/tmp/tryv_$sid
git -C /repo worktree remove --force $wt 2>/dev/null
git -C /repo worktree add -q $wt HEAD || exit 2
(cd $wt && (git apply /verif/seeded/$sid/patch.diff || git apply --3way /verif/seeded/$sid/patch.diff)) || { git -C /repo worktree remove --force $wt; exit 2; }
rm -rf $vc; mkdir -p $vc
rsync -a --exclude .git --exclude replays --exclude 'build/cases' ${VERIF_SRC:-/verif}/ $vc/
cd $vc
VERIF_REPO=$wt VERIF_DIR=$vc "$@"
rc=$?
cd /; rm -rf $vc; git -C /repo worktree remove --force $wt
exit $rc
