#!/usr/bin/env python3
"""Writes /verif/MANIFEST.json from the table below (kept in one place so the file stays valid)."""
import json, os
V = os.path.dirname(os.path.dirname(os.path.abspath(__file__)))
props = [json.loads(l)["id"] for l in open(os.path.join(V, "properties.jsonl"))]

CHECKS = {
 "C18": dict(cat="proof",
   text="Coq theorems (properties/C18.v) that every dumped lookup table equals its coordinate-geometry definition: sliders for every square and EVERY occupancy (finite vm_compute sweep over all mask subsets lifted by subset-completeness and ray-walk-extensionality lemmas), leapers, pawns, rays, between, masks, distances, sqTo, castling-by-square, and ShiftBitboard for every 64-bit board in all 8 directions; tables are re-dumped from the engine built from /repo on every run, the hand-written lookup model is tied by a correspondence run, and an exhaustive Go monitor supplies failing inputs.",
   note="Trusted: Coq kernel + vm_compute, primitive Uint63 literals for reading the dump, the dump hook (types.VerifMagics etc.), Go harness. Package initialisation code is observed (its results are what the theorems are about), not modelled.",
   technique="Coq proof over regenerated tables + correspondence of lookup model + exhaustive monitor", ref="6 C18"),
}

m = dict(version=1,
         setup_cmd="bin/verif setup",
         hooks=dict(guard="verif", enable="go build -tags verif (the harness module /verif/harness replaces github.com/frankkopp/FrankyGo => /repo)",
                    baseline_off_cmd="cd /repo && GOFLAGS=-mod=mod go test -json -vet=off -count=1 -timeout 25m ./...",
                    source_commits=[], add_only=True),
         engines=[dict(name="coq", path="coq", serves_properties=sorted(CHECKS), kind_free_text="Coq 8.16.1 models, theorems, regenerated tables/constants"),
                  dict(name="verifh", path="harness", serves_properties=sorted(CHECKS), kind_free_text="Go harness driving the real packages (correspondence + monitors)")],
         checks=[], notes="see DESIGN.md", not_applicable=[])
try:
    import subprocess
    out = subprocess.run(["git", "-C", "/repo", "log", "--format=%H %s"], capture_output=True, text=True).stdout
    m["hooks"]["source_commits"] = [l.split()[0] for l in out.splitlines() if "verif hook" in l]
except Exception:
    pass
for pid in props:
    if pid in CHECKS:
        c = CHECKS[pid]
        m["checks"].append(dict(property_id=pid, quick_cmd="bin/verif check %s --tier quick" % pid,
                                thorough_cmd="bin/verif check %s --tier thorough" % pid,
                                evidence_file="evidence/%s.json" % pid,
                                replay_cmd_template="bin/verif replay %s {path}" % pid, engine="coq",
                                level_claimed=dict(category=c["cat"], text=c["text"], design_ref=c["ref"]),
                                level_note=c["note"], technique=c["technique"]))
    else:
        m["not_applicable"].append(dict(property_id=pid, reason="check under construction in this build session; not claimed until its model, theorems and correspondence run are committed"))
json.dump(m, open(os.path.join(V, "MANIFEST.json"), "w"), indent=1)
print("checks:", len(m["checks"]), "not claimed:", len(m["not_applicable"]))
