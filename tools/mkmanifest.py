#!/usr/bin/env python3
"""Writes /verif/MANIFEST.json from the table below (kept in one place so the file stays valid)."""
import json, os
V = os.path.dirname(os.path.dirname(os.path.abspath(__file__)))
props = [json.loads(l)["id"] for l in open(os.path.join(V, "properties.jsonl"))]

EXPL_NOTE = "Trusted: the Coq rules specification Rules.v/FenSpec.v/Oracle.v (readable, validated in both directions by this run), ExtrOcamlBasic extraction + 120-line OCaml driver, Go harness generators; the engine itself is used to walk games (positions the spec rejects are counted and skipped)."
CHECKS = {
 "C01": dict(cat="exploration", text="Differential validation of the real generator against the Coq rules-of-chess specification (Rules.legal, extracted): per position the sorted legal move lists must be identical (missing, extra and repeated moves show), engine perft (batch and on-demand) must equal Rules.perft. The refinement theorem legal_moves_exact is stated in DESIGN.md; its proof (bitboard model MovegenImpl ⊑ Rules) is in progress, so the level claimed is what decides the property today.", note=EXPL_NOTE, technique="differential testing vs extracted Coq rules specification", ref="6 C01"),
 "C02": dict(cat="exploration", text="For every legal move of every generated position the FEN after DoMove is compared with FenSpec.print (Rules.make p m) computed by the extracted Coq specification (placement incl. castling rook / ep pawn / promotion piece, side, rights, ep square, clocks).", note=EXPL_NOTE, technique="differential testing vs extracted Coq rules specification", ref="6 C02"),
 "C03": dict(cat="exploration", text="Runtime monitor on the real engine: random nested do/undo and null-move excursions on every position of random games with a snapshot of every public observable before and after. (Coq model PosImpl with excursion_restores is in progress.)", note="Trusted: Go harness; the known game-phase clamp finding is matched by field name and reported as KNOWN-FINDING.", technique="exploration of do/undo excursions on the real engine", ref="6 C03"),
 "C04": dict(cat="exploration", text="Runtime monitor on the real engine: after every move of random games all incremental getters vs a fresh position from the current FEN and vs sums of per-piece values over the board; key as a function of (placement, side, rights, ep) across histories and FENs.", note="Trusted: Go harness; known game-phase clamp finding matched by field name.", technique="exploration: incremental vs fresh vs recomputed on the real engine", ref="6 C04"),
 "C08": dict(cat="exploration", text="Engine-internal monitor of on-demand vs batch generation under random generator histories for all modes x evasion x UsePromNonQuiet, partition and evasion clauses, HasLegalMove; plus batch pseudo-legal list vs Rules.pseudo (extracted Coq spec).", note=EXPL_NOTE, technique="exploration of generator histories + differential testing vs Coq spec", ref="6 C08"),
 "C09": dict(cat="exploration", text="HasCheck, IsAttacked (64 squares x 2 colours, panics caught), AttacksTo, GivesCheck, IsLegalMove/WasLegalMove of the real engine vs the extracted Coq specification incl. the two en-passant conventions. (Coq refinement proof AttacksImpl ⊑ Rules in progress.)", note=EXPL_NOTE, technique="differential testing vs extracted Coq rules specification", ref="6 C09"),
 "C06": dict(cat="proof", text="Coq theorems (properties/C06.v) over AlphaBeta.v, a transcription of rootSearch/search/qsearch with only sound techniques: fail-soft contract of every call for all trees, windows, plies and orderings (relational semantics with arbitrary permutation per node visit), root value = minimax and best move attains it, value independent of the sound switches with or without quiescence nodes. Tied to the code by (a) real searches under random sound switch vectors vs an independent brute-force minimax and (b) real depth-d trees evaluated by the executable model inside Coq.", note="Trusted: Coq kernel; hand-written model AlphaBeta.v (tied by correspondence, not derived); brute-force reference in the harness; evaluation assumed within +-(10000-130) (boundedb, checked on every dumped tree).", technique="Coq proof over hand-written search model + correspondence on real trees + brute-force minimax monitor", ref="6 C06"),
 "C11": dict(cat="proof", text="Coq theorems (properties/C11.v) over TTImpl.v (function-by-function model of tt.go with explicit int8/int16 wrap): refinement of every operation sequence to a key-indexed abstract map with the eviction rule (probe_sound), last-put characterisation, never-foreign, value/mate round trips, replacement policy, count/hashfull exactness, capacity formula, age saturation; literal readings the code violates are kept as refuted twins (key 0 sentinel, MoveNone value loss, age wrap). Tied to the code by random operation sequences run on the real table and on the model inside Coq, plus direct monitors.", note="Trusted: Coq kernel, std++ gmap (no axioms), hand-written model tied by correspondence; float Log2 exactness for sizes <= 65536 MB assumed (sizes 1..64 MB exercised).", technique="Coq refinement proof + operation-sequence correspondence", ref="6 C11"),
 "C18": dict(cat="proof",
   text="Coq theorems (properties/C18.v) that every dumped lookup table equals its coordinate-geometry definition: sliders for every square and EVERY occupancy (finite vm_compute sweep over all mask subsets lifted by subset-completeness and ray-walk-extensionality lemmas), leapers, pawns, rays, between, masks, distances, sqTo, castling-by-square, and ShiftBitboard for every 64-bit board in all 8 directions; tables are re-dumped from the engine built from /repo on every run, the hand-written lookup model is tied by a correspondence run, and an exhaustive Go monitor supplies failing inputs.",
   note="Trusted: Coq kernel + vm_compute, primitive Uint63 literals for reading the dump, the dump hook (types.VerifMagics etc.), Go harness. Package initialisation code is observed (its results are what the theorems are about), not modelled.",
   technique="Coq proof over regenerated tables + correspondence of lookup model + exhaustive monitor", ref="6 C18"),
}

MON_NOTE = "Trusted: Go harness and its reference implementations (replay by the engine's own legality test on fresh copies), watchdog clocks; runtime behaviour (scheduling, timing) is observed, not modelled; Coq model and theorems for this property are being integrated (see DESIGN.md), the level claimed is what decides the property in this commit."
for _pid, _cat, _txt, _tech in [
 ("C05","exploration","Runtime monitor: real searches under random limits, feature switches, stop moments and shared hash/history; every result and every reported PV validated by replay; termination under a watchdog; caller's position unchanged.","exploration of searches with replay validation"),
 ("C07","exploration","Runtime monitor through a verif hook at the two classification sites of alphabeta.go: every node scored as mate/stalemate is checked to have no legal move, under default and random pruning configurations; terminal roots.","hooked exploration of terminal classifications"),
 ("C10","exploration","Runtime monitor: repetition query and half-move clock against an independent count over shuffling games; insufficient-material classification over all 7056 material signatures with up to 3 pieces per side.","exploration + exhaustive material signatures"),
 ("C12","exploration","Protocol-valid UCI sessions against the real handler through pipes with all properties of C12 checked per go command, incl. timing-sensitive scenarios (isready while searching, go right after bestmove).","exploration of UCI sessions"),
 ("C13","exploration","Time-budget inequalities of the property checked on a large grid through the verif hook; real movetime/depth/nodes/searchmoves searches measured.","grid exploration of the time budget + measured searches"),
 ("C14","exploration","Lifecycle call storms under a watchdog with result accounting, plus the same storms under the Go race detector; every race report is a violation.","exploration of lifecycle schedules + race detector"),
 ("C15","exploration","Runtime monitor: purity (repeat, second evaluator, interleaved positions, do/undo excursions), colour mirror, dead material = 0, under the 4 UCI evaluation option combinations.","exploration with mirror/purity oracles"),
 ("C16","exploration","Structural families + byte-level mutations of FEN strings and UCI command lines through the real parser/handler under recover() and a watchdog; accepted FENs must reparse to themselves; isready and a valid position after every line.","fuzzing-style exploration with structural families"),
 ("C17","exploration","Exhaustive 65,536 move codes x boundary/sampled values through the real encoding functions; UCI/SAN round trips against a reference SAN printer for every legal move of generated positions; ambiguous and illegal strings.","exhaustive encoding sweep + notation round trips"),
 ("C19","exploration","Real books built from generated game collections in three formats under GOMAXPROCS 1/2/16 compared with expected positions and counts; offered moves validated.","exploration of formats x schedules"),
 ("C20","fault_enumeration","Every prefix of a real cache file (crash points of the non-atomic save) plus corrupted variants; Initialize twice per state under a watchdog; result compared with the source-built book.","fault enumeration over cache file states"),
]:
    CHECKS[_pid] = dict(cat=_cat, text=_txt, note=MON_NOTE, technique=_tech, ref="6 "+_pid)

m = dict(version=1,
         setup_cmd="bin/verif setup",
         hooks=dict(guard="verif", enable="go build -tags verif (the harness module /verif/harness replaces github.com/frankkopp/FrankyGo => /repo)",
                    baseline_off_cmd="cd /repo && GOFLAGS=-mod=mod go test -json -vet=off -count=1 -timeout 25m ./...",
                    source_commits=[], add_only=True),
         engines=[dict(name="coq", path="coq", serves_properties=sorted(CHECKS), kind_free_text="Coq 8.16.1 models, theorems, regenerated tables/constants"),
                  dict(name="verifh", path="harness", serves_properties=sorted(CHECKS), kind_free_text="Go harness driving the real packages (correspondence + monitors)")],
         checks=[], notes="see DESIGN.md", not_applicable=[])
try:
    import subprocess
    out = subprocess.run(["git", "-C", "/repo", "log", "--format=%H %s"], capture_output=True, text=True).stdout
    m["hooks"]["source_commits"] = [l.split()[0] for l in out.splitlines() if "verif hook" in l]
except Exception:
    pass
for pid in props:
    if pid in CHECKS:
        c = CHECKS[pid]
        m["checks"].append(dict(property_id=pid, quick_cmd="bin/verif check %s --tier quick" % pid,
                                thorough_cmd="bin/verif check %s --tier thorough" % pid,
                                evidence_file="evidence/%s.json" % pid,
                                replay_cmd_template="bin/verif replay %s {path}" % pid, engine="coq",
                                level_claimed=dict(category=c["cat"], text=c["text"], design_ref=c["ref"]),
                                level_note=c["note"], technique=c["technique"]))
    else:
        m["not_applicable"].append(dict(property_id=pid, reason="check under construction in this build session; not claimed until its model, theorems and correspondence run are committed"))
json.dump(m, open(os.path.join(V, "MANIFEST.json"), "w"), indent=1)
print("checks:", len(m["checks"]), "not claimed:", len(m["not_applicable"]))
