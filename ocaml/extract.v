(* Extraction of the differential oracle.  Only ExtrOcamlBasic is used (bool, option,
   list, prod, unit, sumbool mapped to OCaml's); N, Z, positive, nat stay Coq datatypes.
   No Extract Constant directives. *)
From Coq Require Import ExtrOcamlBasic.
From Coq Require Import NArith List.
From FG Require Import Geom Rules FenSpec Oracle.
Extraction "oracle_core.ml" check_pos spec_legal_of_fen spec_successor spec_perft print parse legal_pos
   legal_codes pseudo_codes mirror in_check.
