#!/bin/sh
# builds the extracted oracle: coqc extract.v (in this directory) then ocamlfind ocamlopt
set -e
cd "$(dirname "$0")"
mkdir -p _build && cd _build
cp ../extract.v ../oracle.ml .
coqc -R ../../coq/theories FG -R ../../coq/gen FG.gen extract.v >/dev/null
ocamlfind ocamlopt -O3 -w -a -o oracle oracle_core.mli oracle_core.ml oracle.ml 2>/dev/null || ocamlfind ocamlopt -w -a -o oracle oracle_core.mli oracle_core.ml oracle.ml
mkdir -p ../../build && cp oracle ../../build/oracle
