(* Driver of the extracted oracle: reads one observation per line, prints one line per
   disagreement.  Glue only: tokenising, int <-> Coq N conversion, printing. *)
open Oracle_core

let rec pos_of_int n = if n = 1 then XH else if n land 1 = 0 then XO (pos_of_int (n lsr 1)) else XI (pos_of_int (n lsr 1))
let n_of_int n = if n = 0 then N0 else Npos (pos_of_int n)
let rec int_of_pos = function XH -> 1 | XO p -> 2 * int_of_pos p | XI p -> 2 * int_of_pos p + 1
let int_of_n = function N0 -> 0 | Npos p -> int_of_pos p
(* 64-bit unsigned decimal -> N, via two halves to stay inside OCaml's 63-bit ints *)
let n_of_u64_string s =
  let v = Int64.of_string ("0u" ^ s) in
  let lo = Int64.to_int (Int64.logand v 0xFFFFFFFFL) and hi = Int64.to_int (Int64.shift_right_logical v 32) in
  (* build positive from bits *)
  let rec bits acc k x = if k = 0 then acc else bits ((x land 1 = 1) :: acc) (k - 1) (x lsr 1) in
  let bl = List.rev (bits [] 32 lo) @ List.rev (bits [] 32 hi) in (* little endian *)
  let rec strip = function [] -> [] | l -> (match List.rev l with false :: r -> strip (List.rev r) | _ -> l) in
  let bl = strip bl in
  let rec build = function
    | [] -> None
    | [true] -> Some XH
    | b :: r -> (match build r with Some p -> Some (if b then XI p else XO p) | None -> if b then Some XH else None) in
  match build bl with None -> N0 | Some p -> Npos p

let str_of_string s = List.init (String.length s) (fun i -> n_of_int (Char.code s.[i]))
let string_of_str l = String.concat "" (List.map (fun c -> String.make 1 (Char.chr (int_of_n c land 255))) l)
let rec nat_of_int n = if n = 0 then O else S (nat_of_int (n - 1))

let split c s = String.split_on_char c s
let ints s = if s = "" then [] else List.map (fun x -> n_of_int (int_of_string x)) (split ',' s)
let bools s = List.init (String.length s) (fun i -> s.[i] = '1')
let b01 s = s = "1"
let codes_str l = String.concat "," (List.map (fun c -> string_of_int (int_of_n c)) l)

let kind_name k = match k with
  | 1 -> "spec-cannot-parse-fen" | 2 -> "not-a-legal-position" | 3 -> "legal-move-list" | 4 -> "pseudo-legal-move-list"
  | 5 -> "in-check" | 6 -> "is-attacked" | 7 -> "gives-check" | 8 -> "legality-pre" | 9 -> "legality-post"
  | 10 -> "successor-position" | 11 -> "has-legal-move" | 12 -> "attackers" | 13 -> "move-not-pseudo-legal-in-spec"
  | 14 -> "fen-print" | _ -> "unknown"

let () =
  let npos = ref 0 and nskip = ref 0 and nbad = ref 0 in
  (try
    while true do
      let line = input_line stdin in
      match split '|' line with
      | "POS" :: fen :: legal :: pseudo :: ck :: aw :: ab :: hl :: moves :: atts :: _ ->
        incr npos;
        let mv s = (match split ':' s with
          | [c; gc; lp; lq; f] -> { om_code = n_of_int (int_of_string c); om_gives_check = b01 gc; om_legal_pre = b01 lp;
                                    om_legal_post = b01 lq; om_fen_after = str_of_string f }
          | _ -> failwith ("bad move field " ^ s)) in
        let att s = (match split ':' s with
          | [sq; c; bb] -> ((n_of_int (int_of_string sq), n_of_int (int_of_string c)), n_of_u64_string bb)
          | _ -> failwith ("bad attackers field " ^ s)) in
        let o = { o_fen = str_of_string fen; o_legal = ints legal; o_pseudo = ints pseudo; o_check = b01 ck;
                  o_att_w = bools aw; o_att_b = bools ab; o_has_legal = b01 hl;
                  o_moves = (if moves = "" then [] else List.map mv (split ';' moves));
                  o_attackers = (if atts = "" then [] else List.map att (split ';' atts)) } in
        let errs = List.sort_uniq compare (List.map int_of_n (check_pos o)) in
        (* every generated position is a legal position (corpus, legal placements, legal play from them:
           Rules.make_preserves_legal_pos); one that the specification rejects has been reached through a
           wrong successor or accepted from a wrong FEN, and is reported, not skipped *)
        if errs = [2] then begin incr nskip;
          Printf.printf "MISMATCH|not-a-legal-position|%s|engine_legal=%s\n" fen legal end
        else if errs <> [] then begin
          incr nbad;
          let exp = (match spec_legal_of_fen (str_of_string fen) with Some l -> codes_str l | None -> "?") in
          List.iter (fun k -> Printf.printf "MISMATCH|%s|%s|spec_legal=%s|engine_legal=%s\n" (kind_name k) fen exp legal) errs
        end
      | "PERFT" :: fen :: d :: n :: _ ->
        incr npos;
        (match spec_perft (nat_of_int (int_of_string d)) (str_of_string fen) with
         | Some v -> if int_of_n v <> int_of_string n then begin incr nbad;
               Printf.printf "MISMATCH|perft|%s|depth=%s spec=%d engine=%s\n" fen d (int_of_n v) n end
         | None -> incr nbad; Printf.printf "MISMATCH|spec-cannot-parse-fen|%s|\n" fen)
      | "SUCC" :: fen :: code :: after :: _ ->
        incr npos;
        (match spec_successor (str_of_string fen) (n_of_int (int_of_string code)) with
         | Some f -> if string_of_str f <> after then begin incr nbad;
               Printf.printf "MISMATCH|successor-position|%s|move=%s spec=%s engine=%s\n" fen code (string_of_str f) after end
         | None -> incr nbad; Printf.printf "MISMATCH|move-not-pseudo-legal-in-spec|%s|move=%s\n" fen code)
      | _ -> ()
    done
  with End_of_file -> ());
  Printf.printf "DONE|%d|%d|%d\n" !npos !nskip !nbad
